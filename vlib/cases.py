"""Shared construction of full get_estimates cases (election + feed + call arguments)."""
from . import gen, harness

ESTIMATORS = ["nonparametric", "gaussian", "bootstrap"]


def build(seed, prop, idx, o=None):
    """o may pin: estimator, district, threshold, policy, aggregates, estimands, features, fixed_effects,
    election options (el_*), feed options (feed_*), model_parameters (mp)."""
    o = dict(o or {})
    rng = gen.rng_for(seed, prop, idx)
    estimator = o.get("estimator") or gen.choice(rng, ESTIMATORS)
    el_o = {k[3:]: v for k, v in o.items() if k.startswith("el_")}
    if "district" in o:
        el_o["district"] = o["district"]
    if "geo_county" not in el_o and o.get("allow_geo_county", True):
        el_o["geo_county"] = bool(rng.random() < 0.12)
    el = gen.make_election(rng, el_o)
    thr = o.get("threshold", gen.choice(rng, [100, 100, 90, 50, 0.5]))
    feed_o = {k[5:]: v for k, v in o.items() if k.startswith("feed_")}
    feed_o["threshold"] = thr
    feed, status = gen.make_feed(rng, el, feed_o)
    policy = o.get("policy", gen.choice(rng, ["drop", "drop", "zero"]))
    null_cells = bool(o.get("null_cells", False))
    must = list(o.get("must_aggregates", []))
    aggregates = o.get("aggregates") or gen.random_aggregates(rng, el, must=must)
    alphas = o.get("alphas") or gen.random_alphas(rng)
    if o.get("int_key"):
        # dtype variety: grouping columns delivered as integers (a baseline file read without dtype=str); their numeric
        # order (1, 2, 10) differs from the order of their string form (1, 10, 2)
        for col in ("district", "county_fips"):
            if col in el.pre.columns and (col != "district" or el.district):
                el.pre[col] = el.pre[col].astype(int)
        el.meta["int_key"] = True
    if o.get("cat_key"):
        # dtype variety: the finest requested grouping column is a pandas categorical that also lists levels no unit
        # has (e.g. a district that has no unit in this state file).  Only that column is requested, because the
        # repository sums every non-key column of a group and categoricals cannot be summed.
        col = gen.choice(rng, [c for c in (("district",) if el.district else ()) + ("county_fips",) if c in el.pre.columns])
        aggregates = [col, "unit"] if rng.random() < 0.7 else [col]
        if col == "district" and rng.random() < 0.5:
            aggregates = ["postal_code"] + aggregates
        gen.make_categorical(el, col)
    mp = {}
    if estimator == "bootstrap":
        estimands = ["margin"]
        features = ["baseline_normalized_margin"] + (["x1"] if rng.random() < 0.5 else [])
        mp["B"] = int(o.get("B", gen.choice(rng, [5, 10, 20, 30])))
        lam = o.get("lambda_", gen.choice(rng, [0.1, 1.0, 10.0, 0, None]))
        if lam is not None:
            mp["lambda_"] = lam
        mp["seed"] = int(rng.integers(0, 1000)) if rng.random() < 0.8 else 0
        fe = o.get("fixed_effects")
        if fe is None:
            fe = gen.random_fixed_effects(rng, el, p_any=0.3)
        if o.get("rare_options", True) and rng.random() < 0.3:
            # options ordinary runs leave at their defaults
            r = int(rng.integers(0, 5))
            if r == 0:
                few = el.pre.county_fips.nunique() <= 8  # a stratum per county is slow beyond a handful of counties
                mp["strata"] = [[], ["county_fips"] if few else ["postal_code"],
                                ["county_classification", "county_fips" if few else "postal_code"]][int(rng.integers(0, 3))]
            elif r == 1:
                mp["y_unobserved_lower_bound"], mp["y_unobserved_upper_bound"] = [(-0.5, 0.5), (-1.0, 0.0), (0.0, 0.0)][
                    int(rng.integers(0, 3))]
            elif r == 2:
                mp["z_unobserved_lower_bound"], mp["z_unobserved_upper_bound"] = [(0.9, 1.1), (1.0, 1.0), (0.1, 3.0)][
                    int(rng.integers(0, 3))]
            elif r == 3:
                mp["percent_expected_vote_error_bound"] = float(gen.choice(rng, [0.0, 0.05, 5.0]))
            elif el.meta["n_states"] > 1:
                mp["states_for_separate_model"] = [gen.STATES[int(rng.integers(0, el.meta["n_states"]))]]
    else:
        pool = ["turnout", "dem", "gop"]
        k = int(o.get("n_estimands", gen.choice(rng, [1, 1, 2, 3])))
        estimands = o.get("estimands") or [pool[i] for i in rng.permutation(3)[:k]]
        if "estimands" not in o and o.get("allow_pointer_config", True) and (
                rng.random() < 0.12 or o.get("pointer_config")):
            # primary-style config: new candidates whose baselines point at a previous candidate (two of them at the
            # same one); the feed carries their own result columns
            pointer = {"turnout": "turnout", "dem": "dem", "gop": "gop", "cand_a": "dem", "cand_b": "dem", "cand_c": "gop"}
            el.config[el.election_id][0]["baseline_pointer"] = pointer
            sh = float(rng.uniform(0.2, 0.8))
            feed["results_cand_a"] = (feed["results_dem"] * sh) // 1
            feed["results_cand_b"] = feed["results_dem"] - feed["results_cand_a"]
            feed["results_cand_c"] = feed["results_gop"]
            pool2 = ["cand_a", "cand_b", "cand_c", "turnout"]
            estimands = [pool2[j] for j in rng.permutation(4)[: max(2, k)]]
        features = o.get("features")
        if features is None:
            features = [f for f in ("x1", "x2") if rng.random() < 0.5]
        fe = o.get("fixed_effects")
        if fe is None:
            fe = gen.random_fixed_effects(rng, el, p_any=0.4)
        if estimator == "gaussian":
            if rng.random() < 0.5:
                mp["beta"] = float(gen.choice(rng, [0.1, 1, 3]))
            if rng.random() < 0.3:
                mp["winsorize"] = True
        else:
            if rng.random() < 0.4:
                mp["robust"] = True
        if rng.random() < 0.15:
            mp["lambda_"] = float(gen.choice(rng, [0.5, 5.0]))
        if rng.random() < 0.35:
            mp["seed"] = int(gen.choice(rng, [0, 0, 1, 7, 4191]))
    if null_cells:
        # a unit whose row has arrived but with one requested count still missing (null cell)
        cols = ["results_dem", "results_gop"] if estimator == "bootstrap" else [f"results_{e}" for e in estimands]
        rows_ = [j for j in range(len(feed)) if status.get(feed.loc[j, "geographic_unit_fips"]) in ("full", "partial")]
        for c in set(cols) | {"results_turnout", "results_dem", "results_gop"}:
            if c in feed.columns:
                feed[c] = feed[c].astype(float)
        for j in [rows_[k_] for k_ in rng.permutation(len(rows_))[: int(rng.integers(1, 3))]] if rows_ else []:
            feed.loc[j, cols[int(rng.integers(0, len(cols)))]] = float("nan")
            status[feed.loc[j, "geographic_unit_fips"]] = status[feed.loc[j, "geographic_unit_fips"]] + "+null-cell"
    if o.get("null_unused", bool(rng.random() < 0.08)) and estimator != "bootstrap":
        # the feed carries more count columns than this run models; a null in a column the run does not use says
        # nothing about the unit's requested counts
        # (results_turnout is never unused: the weights of every vote-count estimand are read from it)
        unused = [c for c in ("results_dem", "results_gop") if c[8:] not in estimands and c in feed.columns]
        rows_ = [j for j in range(len(feed)) if status.get(feed.loc[j, "geographic_unit_fips"]) in ("full", "partial")]
        if unused and rows_:
            c = unused[int(rng.integers(0, len(unused)))]
            feed[c] = feed[c].astype(float)
            for j in [rows_[k_] for k_ in rng.permutation(len(rows_))[: int(rng.integers(1, 4))]]:
                feed.loc[j, c] = float("nan")
            el.meta["null_in_unused_column"] = c
    # eligibility parameters
    if rng.random() < 0.3:
        ids = list(el.pre.geographic_unit_fips)
        mp["unit_blocklist"] = [ids[i] for i in rng.permutation(len(ids))[: int(rng.integers(1, 4))]]
        missing = sorted(f for f, s_ in status.items() if s_ == "missing")
        if missing and rng.random() < 0.6:
            mp["unit_blocklist"].append(missing[0])
    if rng.random() < 0.08 and el.meta["n_states"] > 1:
        mp["postal_code_blocklist"] = [gen.STATES[int(rng.integers(0, el.meta["n_states"]))]]
    if rng.random() < 0.5:
        mp["fit_turnout_outlier_model"] = False
        mp["fit_margin_outlier_model"] = False
    elif o.get("rare_options", True) and rng.random() < 0.2:
        mp["outlier_z_threshold"] = float(gen.choice(rng, [1.0, 1.5, 3.0]))
    if rng.random() < 0.2:
        mp["turnout_factor_lower"] = float(gen.choice(rng, [0.2, 0.6, 0.0]))
        mp["turnout_factor_upper"] = float(gen.choice(rng, [1.5, 3.0, 1e9]))
    mp.update(o.get("mp", {}))
    call = harness.default_call(
        estimands=estimands, prediction_intervals=alphas, percent_reporting_threshold=thr, pi_method=estimator,
        aggregates=aggregates, features=features, fixed_effects=fe, model_parameters=mp, handle_unreporting=policy,
    )
    if o.get("extra_state_rows", bool(rng.random() < 0.1)) and not el.meta.get("cat_key"):
        # the baseline FILE holds more states than the config names for this office (a national file, a state-level
        # race): the client must drop those rows; the reference keeps working on el.pre (the rows of the configured
        # states), the client is handed that file (harness.baseline_argument)
        k = int(rng.integers(1, 6))
        extra = el.pre.iloc[rng.permutation(len(el.pre))[:k]].copy()
        extra["postal_code"] = "QQ"
        extra["county_fips"] = [f"77{j:03d}" for j in range(len(extra))]
        extra["geographic_unit_fips"] = [
            (f"{d}_77{j:03d}_001" if el.district else (f"77{j:03d}" if el.geo_type == "county" else f"77{j:03d}_001"))
            for j, d in enumerate(extra["district"] if "district" in extra.columns else [None] * len(extra))]
        # kept as "extra rows + where they go": checks may still edit el.pre after this builder returns, and the file
        # handed to the client (harness.baseline_argument) is put together from the current el.pre
        el.pre_extra = extra.reset_index(drop=True)
        el.pre_extra_first = bool(rng.random() < 0.5)
        el.meta["extra_state_rows"] = int(len(extra))
        if o.get("extra_state_in_feed", bool(rng.random() < 0.6)):
            # ... and the live feed reports those units too (a national feed): for this office they are units without
            # a baseline, i.e. unexpected units that only pass their counts through
            import pandas as _pd

            add = []
            for r_ in extra.to_dict(orient="records"):
                bt = int(r_["baseline_turnout"])
                td = int(bt * rng.uniform(0.2, 0.7))
                add.append(dict(postal_code="QQ", geographic_unit_fips=r_["geographic_unit_fips"],
                                percent_expected_vote=float(gen.choice(rng, [100, 100, 40, 0])),
                                results_turnout=bt + int(rng.integers(0, 50)), results_dem=td,
                                results_gop=max(0, bt - td - int(rng.integers(0, 20)))))
                status[r_["geographic_unit_fips"]] = "unexpected"
            addf = _pd.DataFrame(add)
            for c in feed.columns:
                if c not in addf.columns:
                    addf[c] = addf["results_dem"] if c.startswith("results_") else None
            addf = addf[list(feed.columns)]
            for c in feed.columns:
                try:
                    addf[c] = addf[c].astype(feed[c].dtype)
                except (TypeError, ValueError):
                    pass
            feed = _pd.concat([feed, addf]).reset_index(drop=True)
            feed = feed.iloc[rng.permutation(len(feed))].reset_index(drop=True)
            el.meta["extra_state_in_feed"] = True
    if o.get("call_one_contest") and estimator == "bootstrap":
        # one contest is called (or stop-listed); preferably one whose name is a prefix of another contest's name
        # ("AA_1" / "AA_10"): what happens to a called contest must not leak onto its neighbours
        if el.district:
            names = sorted({f"{a}_{b}" for a, b in zip(el.pre.postal_code.astype(str), el.pre.district.astype(str))})
        else:
            names = sorted(set(el.pre.postal_code.astype(str)))
        pref = [n_ for n_ in names if any(m_ != n_ and m_.startswith(n_) for m_ in names)]
        pick = (pref or names)[int(rng.integers(0, len(pref or names)))]
        which = ["lhs_called_contests", "rhs_called_contests", "stop_model_call"][int(rng.integers(0, 3))]
        call[which] = [pick]
    if o.get("feed_as_lists", bool(rng.random() < 0.2)):
        call["feed_as_lists"] = True
    if o.get("pre_from_earlier_run", bool(rng.random() < 0.1)) and not el.meta.get("cat_key") \
            and getattr(el, "pre_extra", None) is None \
            and "baseline_pointer" not in el.config[el.election_id][0]:
        # a history: the baseline file is the one an earlier run for OTHER estimands saved (save_output=["data"]); it
        # carries that run's derived columns (weights, last_election_results_*, normalised margin), produced here by
        # the library's own preprocessing step
        harness.client_mod()
        from elexmodel.handlers.data.Estimandizer import Estimandizer

        other = {"margin": "margin"} if "margin" not in estimands else {gen.choice(rng, ["turnout", "dem"]): None}
        other = {k: (v if v else k) for k, v in other.items()}
        try:
            el.pre = Estimandizer().add_estimand_baselines(el.pre.copy(deep=True), other, False)
            el.meta["pre_from_earlier_run"] = sorted(other)
        except Exception:  # noqa: BLE001  (not judged here)
            pass
    r2 = gen.rng_for(seed, prop, idx, salt=4242)  # own stream: the classes above are drawn as before
    if o.get("baseline_rows_shuffled", bool(r2.random() < 0.2)) and not el.meta.get("cat_key"):
        el.meta["baseline_rows_shuffled"] = int(r2.integers(1, 10**6))  # applied by harness.baseline_argument
    return el, feed, status, call


def signature(el, status, call):
    vals = list(status.values())
    return [
        call["pi_method"], bool(el.district), call["handle_unreporting"],
        "unexpected" in vals, "missing" in vals, el.meta["n_zero"] > 0,
        bool(call["model_parameters"].get("unit_blocklist")), len([a for a in call["aggregates"] if a != "unit"]),
        len(call["estimands"]), call["percent_reporting_threshold"], el.meta["n_states"] > 1,
        "county_classification" in call["aggregates"],
    ]


def poll_sequence(seed, prop, idx, el, feed, status, k):
    """k successive feeds of one election night on the way to `feed` (the last one): units start to report in a
    random order; a unit that has not started yet is listed with zero votes and 0 percent."""
    rng = gen.rng_for(seed, prop, idx, salt=77)
    started = [f for f, s_ in status.items() if s_.split("+")[0] in ("full", "partial", "unexpected")]
    order = [started[j] for j in rng.permutation(len(started))]
    feeds = []
    for t in range(1, k + 1):
        keep = set(order[: int(round(len(order) * t / k))])
        ft = feed.copy(deep=True)
        if t < k:
            m_ = ~ft.geographic_unit_fips.isin(keep) & ft.geographic_unit_fips.isin(set(started))
            for c in ft.columns:
                if c.startswith("results_"):
                    ft.loc[m_, c] = 0
            ft.loc[m_, "percent_expected_vote"] = 0.0
        feeds.append(ft)
    return feeds
