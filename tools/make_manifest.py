#!/usr/bin/env python3
"""Regenerates /verif/MANIFEST.json from the table below (kept in one place so it always validates)."""
import json
import os

HERE = os.path.dirname(os.path.dirname(os.path.abspath(__file__)))
PY = "/venv/bin/python"

CHECKS = {
    "C01": dict(
        category="exploration",
        technique="runtime monitoring: reference-model monitor (loop-and-dict re-aggregation of the feed) over real get_estimates runs",
        text="Every table returned by real get_estimates runs on generated elections is compared with an independent "
             "loop-and-dict aggregation of the live feed (unit rows against the feed itself, group rows against the "
             "units attributable to them). Holds on the executions observed, across all three estimators, both "
             "policies, district and statewide offices and random aggregate lists; says nothing about input classes "
             "the generator does not produce.",
        note="Trusted: the reference (vlib/reference.py, vlib/tablecheck.py), the id rule for unexpected units as "
             "documented in CombinedData, pandas/numpy. Runs that raise are counted, not judged (C11/C14 judge them).",
        ref="DESIGN.md section 6 C01",
    ),
    "C02": dict(
        category="exploration",
        technique="runtime monitoring: reference-model monitor (re-summing unit rows; recomputing every bootstrap aggregate interval from the model's stored draws) over real get_estimates runs",
        text="Group predictions (nonparametric: and bounds) are re-summed from the unit rows with python loops, finer "
             "tables are summed onto coarser ones, and for the bootstrap every aggregate interval is recomputed group "
             "by group from the draw matrices left on the model object and compared with the row it was stored on, so "
             "a positional mis-assignment is visible even when two groups have similar numbers.",
        note="Trusted: vlib/tablecheck.py reference; model attributes errors_B_1..4 / weighted_*_test_pred as the "
             "unit-level draws. Gaussian aggregate bounds are only checked with row-local relations here (C15 "
             "recomputes them).",
        ref="DESIGN.md section 6 C02",
    ),
    "C03": dict(
        category="exploration",
        technique="runtime monitoring: row-predicate contracts on every returned unit and group row, workloads biased to make each of the five floors binding",
        text="Row predicates (>= counted, finite whole numbers, final units equal counted votes, complete groups "
             "zero-width) evaluated on every row of every table from runs whose feeds are built so that each floor "
             "(unit pred/lower/upper, gaussian aggregate lower/upper) is actually binding; the run is inconclusive if "
             "one of the five sites was never binding.",
        note="Trusted: the predicates in vlib/tablecheck.check_floor; 'binding' is detected as value == positive counted votes.",
        ref="DESIGN.md section 6 C03",
    ),
    "C17": dict(
        category="exploration",
        technique="runtime monitoring: boundary contract on VersionedDataHandler.compute_versioned_margin_estimate against a per-unit plain-python reference; second monitor on _extrapolate_unit_margin",
        text="The real interpolation function is called on generated version histories (regular, repeated, zero "
             "prefixes, downward revisions, impossible batches, shrinking two-party totals, int and float dtypes); a "
             "per-unit reference with true division decides regular/irregular from the statement and recomputes every "
             "row.",
        note="Trusted: the reference in vlib/checks/c17.py. The second monitor (_extrapolate_unit_margin) cannot run "
             "under pandas 3 (the repository's groupby.apply relies on the grouping column being passed); it reports "
             "itself unavailable instead of judging.",
        ref="DESIGN.md section 6 C17",
    ),
    "C18": dict(
        category="fault_enumeration",
        technique="runtime monitoring: offline trace checker over recorded put_object calls + sys.addaudithook file/socket events, exhaustive over save_output x environment x estimator x gate outcome",
        text="Every combination of save_output options, local/non-local environment, estimator, gate outcome (and "
             "national summary for the bootstrap) is executed in a subprocess per environment; the recorded sequence "
             "of remote puts and local file/socket events is checked against the persistence specification (what may "
             "be written, where, and in which order relative to the gate).",
        note="Trusted: the recording boto3 client replaces the network boundary; audit events as delivered by CPython.",
        ref="DESIGN.md section 6 C18",
    ),
    "C20": dict(
        category="fault_enumeration",
        technique="runtime monitoring with fault injection: every fit position x both failure kinds injected at QuantileRegressionSolver.fit; event-log rule for the retry + table comparison with the fault-free run",
        text="For each generated election every position of the failing solve (median/lower/upper of every estimand "
             "and level) and both failure kinds are injected; the solver-call event log is checked against the retry "
             "rule and the returned tables are compared with the fault-free run.",
        note="Trusted: injection at the elexsolver boundary represents real solver failures; the known finding for "
             "lambda_>0 is listed in KNOWN_FINDINGS.json.",
        ref="DESIGN.md section 6 C20",
    ),
}

NOT_YET = {}


def main():
    props = [json.loads(l) for l in open(os.path.join(HERE, "properties.jsonl"))]
    checks = []
    na = []
    for p in props:
        pid = p["id"]
        c = CHECKS.get(pid)
        if c is None:
            na.append(dict(property_id=pid, reason=NOT_YET.get(pid, "check under construction in this session; not "
                                                                    "claimed until it runs silently on the unchanged tree")))
            continue
        checks.append(dict(
            property_id=pid,
            quick_cmd=f"{PY} -m vlib.check {pid} --tier quick",
            thorough_cmd=f"{PY} -m vlib.check {pid} --tier thorough",
            evidence_file=f"/verif/evidence/{pid}.json",
            replay_cmd_template=f"{PY} -m vlib.check {pid} --replay {{path}}",
            engine="vlib",
            level_claimed=dict(category=c["category"], text=c["text"], design_ref=c["ref"]),
            level_note=c["note"],
            technique=c["technique"],
        ))
    m = dict(
        version=1,
        setup_cmd="true",
        hooks=dict(
            guard="ELEXMODEL_VERIF",
            enable="no source hooks: monitors are attached from the harness process (class-attribute wrappers, "
                   "sys.monitoring local probes, audit hooks, fake storage clients); ELEXMODEL_VERIF=1 is set by "
                   "vlib/env.py for the worker processes only",
            baseline_off_cmd="cd /repo && /venv/bin/python -m pytest -ra -q -p no:cacheprovider --timeout=900 "
                             "--continue-on-collection-errors",
            source_commits=[],
            add_only=True,
        ),
        engines=[dict(name="vlib", path="/verif/vlib", serves_properties=sorted(CHECKS),
                      kind_free_text="python harness: generators, wrappers/probes on the real classes, reference "
                                     "models, trace checkers, fault injection, sharded over worker subprocesses")],
        checks=checks,
        not_applicable=na,
        notes="All checks: cwd=/verif, VERIF_SEED / VERIF_TIER honoured, evidence rewritten on every run, exit 0 held / "
              "1 VIOLATION / 2 INCONCLUSIVE. Known findings: /verif/KNOWN_FINDINGS.json.",
    )
    with open(os.path.join(HERE, "MANIFEST.json"), "w") as f:
        json.dump(m, f, indent=1)
    try:
        import jsonschema
        jsonschema.validate(m, json.load(open("/root/.vp/MANIFEST.schema.json")))
        print("MANIFEST.json valid;", len(checks), "checks,", len(na), "not claimed")
    except ImportError:
        print("written (jsonschema not available)")


if __name__ == "__main__":
    main()
