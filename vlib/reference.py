"""Loop-and-dict reference computations over returned tables (no pandas joins, no vectorised tricks).

Used by C01 (conservation), C02 (aggregation identities), C03 (floors).  Everything works on plain python
dicts built by iterating rows; key columns are read from the returned table itself.
"""
import math

KEY_COLS = ("postal_code", "district", "county_classification", "county_fips")
TABLE_OF = {"postal_code": "state_data", "county_fips": "county_data", "district": "district_data",
            "county_classification": "classification_data"}
LEVEL_OF = {v: k for k, v in TABLE_OF.items()}


def rows(df):
    cols = list(df.columns)
    out = []
    for tup in df.itertuples(index=False, name=None):
        out.append(dict(zip(cols, tup)))
    return out


def isnan(x):
    return isinstance(x, float) and math.isnan(x)


def unit_key_map(el, feed):
    """fips -> dict(postal_code, county_fips, district, county_classification|None, in_baseline)."""
    m = {}
    has_d = "district" in el.pre.columns
    for r in rows(el.pre):
        m[r["geographic_unit_fips"]] = dict(
            postal_code=r["postal_code"], county_fips=r["county_fips"],
            district=r["district"] if has_d else None,
            county_classification=r["county_classification"], in_baseline=True,
        )
    for r in rows(feed):
        f = r["geographic_unit_fips"]
        if f in m:
            continue
        comp = f.split("_")
        county = comp[1] if ("district" in el.geo_type and len(comp) > 1) else comp[0]
        m[f] = dict(postal_code=r["postal_code"], county_fips=county, district=comp[0],
                    county_classification=None, in_baseline=False)
    return m


def feed_counts(feed):
    """fips -> dict(turnout, dem, gop, margin, weights(two-party), pct)."""
    out = {}
    dup = set()
    for r in rows(feed):
        f = r["geographic_unit_fips"]
        if f in out:
            dup.add(f)
        d, g, t = r["results_dem"], r["results_gop"], r["results_turnout"]
        out[f] = dict(turnout=t, dem=d, gop=g, margin=d - g, two_party=d + g, pct=r["percent_expected_vote"],
                      party_vote_share_dem=(d / t if t else 0.0))
        for c, v in r.items():  # any further estimand the feed carries (e.g. candidates of a primary)
            if c.startswith("results_") and c[8:] not in out[f]:
                out[f][c[8:]] = v
    return out, dup


def table_keys(df):
    return [c for c in KEY_COLS if c in df.columns]


def close(a, b, rel=1e-9, abs_=1e-9):
    if a is None or b is None:
        return False
    try:
        a, b = float(a), float(b)
    except (TypeError, ValueError):
        return False
    if math.isnan(a) or math.isnan(b):
        return False
    return abs(a - b) <= max(abs_, rel * max(1.0, abs(a), abs(b)))


def whole(x):
    try:
        x = float(x)
    except (TypeError, ValueError):
        return False
    return math.isfinite(x) and x == math.floor(x)


def group_units(unit_rows, keymap, keys):
    """Accumulate unit rows into groups keyed by the table's key columns.  Returns (groups, skipped)
    where groups[key] = list of unit rows attributable to the group."""
    groups = {}
    skipped = []
    for u in unit_rows:
        km = keymap.get(u["geographic_unit_fips"])
        if km is None:
            skipped.append(u["geographic_unit_fips"])
            continue
        if "county_classification" in keys and u.get("unit_category") != "expected":
            continue  # pinned behaviour: classification tables hold modelled units only
        key = tuple(km[k] for k in keys)
        if any(k is None for k in key):
            continue
        groups.setdefault(key, []).append(u)
    return groups, skipped
