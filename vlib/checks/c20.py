"""C20 - a failed or inaccurate quantile-regression solve is retried, not fatal."""
import warnings

import numpy as np

from .. import cases as cases_mod
from .. import gen, harness
from . import common

PROPERTY = "C20"
LEVEL = "fault_enumeration"
EXHAUSTIVE = True
RULE = ("for each generated election (nonparametric and gaussian, 1-3 estimands x 1-3 levels, lambda_ 0 and >0) a "
        "fault-free run records the number K of model fits; then EVERY fault position k=1..K x both fault kinds "
        "(cvxpy SolverError, UserWarning as raised for an inaccurate solution) is injected into the first solver "
        "call of the k-th fit. Monitors: event log at elexsolver.QuantileRegressionSolver.fit (digests of x, y, "
        "weights; taus, lambda_, fit_intercept, normalize_weights; outcome) checked against the retry rule, and the "
        "returned tables compared with the fault-free run. Non-trivial: injected run in which the retry was observed; "
        "distinct = (estimator, fit role median/lower/upper, fault kind, lambda>0, #estimands, #levels)")
ASSUMPTIONS = ["faults are injected at the solver boundary (QuantileRegressionSolver.fit raising), which is where "
               "cvxpy/HiGHS failures surface",
               "tables are compared exactly; whole-vote columns may differ by 1 on a rounding tie (counted) because "
               "the un-normalised LP may pick another optimal vertex"]
BATCH = {"quick": 1, "thorough": 2}
BUDGET = {"quick": 150, "thorough": 1500}
MIN_NONTRIVIAL = {"quick": 8, "thorough": 12}
N = {"quick": 28, "thorough": 400}
CASE_TIMEOUT = 900


INACCURATE_MSG = ("Solution may be inaccurate. Try another solver, adjusting the solver settings, or solve with "
                  "verbose=True for more information.")
_ORIGIN = {}


class flipped_clarabel_status:
    """While active, cvxpy's CLARABEL interface reports a solved problem as optimal_inaccurate, so that cvxpy itself
    emits its "Solution may be inaccurate" warning from problem.solve()."""

    def __enter__(self):
        from cvxpy.reductions.solvers.conic_solvers.clarabel_conif import CLARABEL
        from cvxpy.settings import OPTIMAL, OPTIMAL_INACCURATE

        self.map = CLARABEL.STATUS_MAP
        self.keys = [k for k, v in self.map.items() if v == OPTIMAL]
        for k in self.keys:
            self.map[k] = OPTIMAL_INACCURATE
        self.restore = OPTIMAL
        return self

    def __exit__(self, *a):
        for k in self.keys:
            self.map[k] = self.restore
        return False


def inaccuracy_warning_origin():
    """(filename, module) the installed cvxpy attributes its inaccuracy warning to when it is raised during
    elexsolver's regularised fit - measured once with a real solve, not assumed (cvxpy >= 1.6 attributes it to the
    first frame outside the cvxpy package, older releases to cvxpy.problems.problem)."""
    if not _ORIGIN:
        import sys as _sys
        import warnings as _w

        from elexsolver.QuantileRegressionSolver import QuantileRegressionSolver

        rng = np.random.default_rng(0)
        x = np.column_stack([np.ones(12), rng.normal(size=12)])
        y = rng.normal(size=12)
        fit = getattr(QuantileRegressionSolver.fit, "_verif_orig", None) or QuantileRegressionSolver.fit
        with _w.catch_warnings(record=True) as rec:
            _w.simplefilter("always")
            with flipped_clarabel_status():
                QuantileRegressionSolver._fit_with_regularization(QuantileRegressionSolver(), x, y, np.ones(12) / 12, 0.5,
                                                                  1.0, False, 0)
        hit = [r for r in rec if "inaccurate" in str(r.message)]
        fn = hit[0].filename if hit else "<cvxpy>"
        mod = "cvxpy.problems.problem"
        for name, m in list(_sys.modules.items()):
            if getattr(m, "__file__", None) == fn:
                mod = name
        _ORIGIN["v"] = (fn, mod)
    return _ORIGIN["v"]


class Injector:
    def __init__(self):
        self.fit_index = 0          # index of the current model fit (1-based), 0 outside
        self.n_fits = 0
        self.attempt = 0
        self.target = None          # (k, kind)
        self.events = []
        self.roles = {}
        self.injected = 0
        self.n_solves = 0
        self.solve_target = None    # (n, kind): the n-th underlying solve of the run fails once
        self.solve_done = False
        self.solve_hit_fit = None

    def install(self, p):
        harness.client_mod()
        import cvxpy
        from elexmodel.models.ConformalElectionModel import ConformalElectionModel
        from elexsolver.QuantileRegressionSolver import QuantileRegressionSolver

        inj = self
        orig_fm = ConformalElectionModel.fit_model
        orig_fit = QuantileRegressionSolver.fit

        def fit_model(self_, model, df_X, df_y, tau, weights, normalize_weights):
            inj.n_fits += 1
            inj.fit_index = inj.n_fits
            inj.attempt = 0
            try:
                inj.roles[inj.fit_index] = "median" if tau == 0.5 else ("lower" if tau < 0.5 else "upper")
            except (TypeError, ValueError):  # a fit that solves several quantiles in one call
                inj.roles[inj.fit_index] = "several-quantiles"
            try:
                return orig_fm(self_, model, df_X, df_y, tau, weights, normalize_weights)
            finally:
                inj.fit_index = 0

        def fit(self_, x, y, *args, **kwargs):
            if inj.fit_index == 0:
                return orig_fit(self_, x, y, *args, **kwargs)
            inj.attempt += 1
            names = ["taus", "weights", "lambda_", "fit_intercept", "regularize_intercept", "n_feat_ignore_reg",
                     "normalize_weights"]
            kw = dict(zip(names, args))
            unknown = [k for k in kwargs if k not in names]
            kw.update(kwargs)
            ev = dict(fit=inj.fit_index, attempt=inj.attempt, solver=id(self_), x=harness.digest(x),
                      y=harness.digest(y), w=harness.digest(kw.get("weights")), taus=_f(kw.get("taus", 0.5)),
                      lambda_=_f(kw.get("lambda_", 0.0)), fit_intercept=kw.get("fit_intercept", True),
                      normalize_weights=kw.get("normalize_weights", True), unknown_kwargs=unknown)
            inj.events.append(ev)
            tpos = inj.target[0] if inj.target else None
            hit = tpos is not None and inj.attempt == 1 and (inj.fit_index in tpos if isinstance(tpos, (set, list, tuple))
                                                             else inj.fit_index == tpos)
            if hit:
                inj.injected += 1
                ev["outcome"] = "injected:" + inj.target[1]
                if inj.target[1] == "solver_error":
                    raise cvxpy.error.SolverError("injected by verif")
                # inaccuracy: the warning must travel through the warnings machinery exactly as cvxpy's does, because
                # whether it becomes an exception (and hence a retry) is decided by the warning filters
                try:
                    if (kw.get("lambda_") or 0) > 0:
                        with flipped_clarabel_status():      # the real solve, reported "optimal_inaccurate" by cvxpy
                            r = orig_fit(self_, x, y, *args, **kwargs)
                    else:
                        fn, mod = inaccuracy_warning_origin()
                        warnings.warn_explicit(INACCURATE_MSG, UserWarning, fn, 1, module=mod, registry={})
                        r = orig_fit(self_, x, y, *args, **kwargs)
                    ev["outcome"] += ":warning-not-raised-solution-used"
                    return r
                except UserWarning:
                    ev["outcome"] += ":raised-as-error"
                    raise
            try:
                r = orig_fit(self_, x, y, *args, **kwargs)
                ev["outcome"] = "ok"
                return r
            except BaseException as e:  # noqa: BLE001
                ev["outcome"] = f"raised:{type(e).__name__}:{str(e)[:80]}"
                raise

        # faults BELOW fit(): the n-th underlying solve of the run fails once (a fit that solves several quantiles in
        # one call can fail after it has already stored part of its result)
        def make_solve(orig_solve):
            def solve(self_, *args, **kwargs):
                if inj.fit_index == 0:
                    return orig_solve(self_, *args, **kwargs)
                inj.n_solves += 1
                if inj.solve_target is not None and inj.n_solves == inj.solve_target[0] and not inj.solve_done:
                    inj.solve_done = True
                    inj.solve_hit_fit = inj.fit_index
                    if inj.solve_target[1] == "solver_error":
                        raise cvxpy.error.SolverError("injected by verif below fit()")
                    fn, mod = inaccuracy_warning_origin()
                    warnings.warn_explicit(INACCURATE_MSG, UserWarning, fn, 1, module=mod, registry={})
                return orig_solve(self_, *args, **kwargs)
            return solve

        p.set(QuantileRegressionSolver, "_fit", make_solve(QuantileRegressionSolver._fit))
        p.set(QuantileRegressionSolver, "_fit_with_regularization",
              make_solve(QuantileRegressionSolver._fit_with_regularization))
        p.set(ConformalElectionModel, "fit_model", fit_model)
        p.set(QuantileRegressionSolver, "fit", fit)


def _f(v):
    if isinstance(v, (list, tuple, np.ndarray)):
        return [float(x) for x in np.asarray(v).ravel()]
    return float(v) if v is not None else None


def cases(tier, seed):
    return [dict(seed=seed, i=i) for i in range(N[tier])]


def build(spec):
    i = spec["i"]
    rng = gen.rng_for(spec["seed"], PROPERTY, i, salt=7)
    o = dict(estimator=["nonparametric", "gaussian"][i % 2], el_n_units=int(rng.integers(30, 70)), feed_n_unexpected=0,
             threshold=100, policy="drop", n_estimands=int(rng.integers(1, 4)),
             alphas=[[0.9], [0.7, 0.9], [0.5, 0.8, 0.95]][int(rng.integers(0, 3))],
             aggregates=["postal_code", "unit"], feed_frac_reporting=0.7)
    el, feed, status, call = cases_mod.build(spec["seed"], PROPERTY, i, o)
    mp = call["model_parameters"]
    for k in ("lambda_",):
        mp.pop(k, None)
    if i % 4 >= 2:
        mp["lambda_"] = 0.5
    mp["fit_turnout_outlier_model"] = False
    mp["fit_margin_outlier_model"] = False
    if i % 4 == 1 and "baseline_pointer" not in el.config[el.election_id][0]:
        # extreme spread of the regression weights: a hamlet with one voter next to a metropolis (a retry that
        # "stabilises" the weights instead of re-using them shows only here)
        full = [f for f, s_ in status.items() if s_ == "full" and f in set(el.pre.geographic_unit_fips)]
        if len(full) >= 4:
            small, big = full[0], full[1]
            for f, k_ in ((small, None), (big, 3000)):
                jp = el.pre.index[el.pre.geographic_unit_fips == f][0]
                jf = feed.index[feed.geographic_unit_fips == f][0]
                if k_ is None:
                    el.pre.loc[jp, ["baseline_turnout", "baseline_dem", "baseline_gop"]] = [1, 1, 0]
                    feed.loc[jf, ["results_turnout", "results_dem", "results_gop"]] = [1, 1, 0]
                else:
                    for c_ in ("turnout", "dem", "gop"):
                        el.pre.loc[jp, f"baseline_{c_}"] = el.pre.loc[jp, f"baseline_{c_}"] * k_
                        feed.loc[jf, f"results_{c_}"] = feed.loc[jf, f"results_{c_}"] * k_
            el.meta["extreme_weights"] = True
    return el, feed, status, call


def tables_equal(a, b):
    """Returns (equal, n_tie_cells, detail)."""
    ties = 0
    unit_ties = {}  # column -> number of unit rows that differ by one vote (a rounding tie of x.5)
    for k in sorted(a, key=lambda t: t != "unit_data"):  # units first: a group value is a sum of unit values
        if k not in b or list(a[k].columns) != list(b[k].columns) or a[k].shape != b[k].shape:
            return False, ties, f"table {k} differs in shape/columns"
        for c in a[k].columns:
            va, vb = a[k][c].to_numpy(), b[k][c].to_numpy()
            if va.dtype.kind in "fiu":
                d = np.abs(va.astype(float) - vb.astype(float))
                if np.nanmax(d) if len(d) else 0:
                    # a unit cell may differ by one vote (rounding of x.5 after a solve that is equal up to solver
                    # accuracy); a group cell by at most as many votes as unit cells of that column differ
                    allowed = 1.0 if k == "unit_data" else float(max(1, unit_ties.get(c, 0)))
                    if np.nanmax(d) <= allowed:
                        ties += int((d > 0).sum())
                        if k == "unit_data":
                            unit_ties[c] = int((d > 0).sum())
                    else:
                        return False, ties, f"{k}.{c} differs by {np.nanmax(d)}"
            else:
                if va.tolist() != vb.tolist():
                    return False, ties, f"{k}.{c} differs"
    return True, ties, ""


def run_case(spec, inputs=None):
    if inputs is not None:
        el, feed, call = gen.dematerialise(inputs)
        status = {}
    else:
        el, feed, status, call = build(spec)
    out = dict(violations=[], counters={}, sets={}, nontrivial=False,
               sig=[call["pi_method"], len(call["estimands"]), len(call["prediction_intervals"]),
                    bool(call["model_parameters"].get("lambda_"))])
    if spec["i"] % 2 == 1 and inputs is None:
        # history of the process: it has answered a bootstrap request for this election before (a service computes
        # margins with the bootstrap and vote counts with the conformal estimators side by side); what the conformal
        # models do about a failed solve must not depend on that
        import copy

        bcall = copy.deepcopy(call)
        bcall.update(pi_method="bootstrap", estimands=["margin"], features=["baseline_normalized_margin"],
                     fixed_effects={}, prediction_intervals=[0.9],
                     aggregates=["postal_code"] + (["district"] if el.district else []) + ["unit"])
        bcall["model_parameters"] = dict(B=5, lambda_=1.0, seed=1)
        _r, _e = harness.run_estimates(el, feed, bcall)
        out["counters"]["elections_after_a_bootstrap_run_in_this_process"] = 1
        out["counters"]["bootstrap_warmups_completed"] = int(_e is None)
    inj = Injector()
    with harness.patched() as p:
        inj.install(p)
        if call["pi_method"] == "gaussian":
            harness.fast_boot_sigma(p)
        # fix the sigma bootstrap stream so that two runs are comparable whatever the seeding of boot_sigma is
        res0, exc0 = _run(el, feed, call)
        if exc0 is not None:
            cm = harness.client_mod()
            if isinstance(exc0, cm.ModelNotEnoughSubunitsException):
                out["counters"]["not_enough_units"] = 1
                return out
            out["inconclusive"] = f"fault-free run raised {harness.exc_info(exc0)}"
            return out
        K = inj.n_fits
        base_solves = inj.n_solves
        base_events = {}
        for e_ in inj.events:
            base_events.setdefault(e_["fit"], []).append({k_: v_ for k_, v_ in e_.items() if k_ not in ("solver", "outcome")})
        out["counters"]["elections"] = 1
        out["counters"]["fault_positions"] = K
        expected_K = len(call["estimands"]) * (1 + 2 * len(call["prediction_intervals"]))
        if K != expected_K:
            out["counters"]["unexpected_fit_count"] = 1
        sigs = []
        positions = range(1, K + 1)
        if spec.get("only"):
            positions = [spec["only"][0]]
        for k in positions:
            for kind in ("solver_error", "inaccurate_warning"):
                if spec.get("only") and kind != spec["only"][1]:
                    continue
                inj.n_fits = 0
                inj.events = []
                inj.target = (k, kind)
                inj.injected = 0
                res, exc = _run(el, feed, call)
                out["counters"]["injected_runs"] = out["counters"].get("injected_runs", 0) + 1
                role = inj.roles.get(k, "?")
                where = f"{call['pi_method']}/{role}"
                if inj.injected != 1:
                    out["inconclusive"] = f"fault at position {k} was injected {inj.injected} times"
                    continue
                evs = [e for e in inj.events if e["fit"] == k]
                if exc is not None:
                    info = harness.exc_info(exc)
                    out["violations"].append(dict(
                        key=f"C20/run-fails-after-injected-{kind}/{info['type']}",
                        msg=f"{where} fit #{k}: run raised {info['type']}: {info['msg']} at {info['where']}",
                        witness=dict(position=k, kind=kind, events=evs, exc=info)))
                    continue
                if len(evs) < 2:
                    out["violations"].append(dict(key="C20/no-retry-observed", msg=f"{where} fit #{k}: run completed "
                                                  f"but only {len(evs)} solver call(s) in that fit",
                                                  witness=dict(position=k, kind=kind, events=evs)))
                    continue
                a, b = evs[0], evs[1]
                out["counters"]["retries_observed"] = out["counters"].get("retries_observed", 0) + 1
                diffs = [f for f in ("x", "y", "w", "taus", "lambda_", "fit_intercept", "solver") if a[f] != b[f]]
                if diffs:
                    out["violations"].append(dict(key=f"C20/retry-differs-in-{'+'.join(diffs)}",
                                                  msg=f"{where} fit #{k}: retry differs from failed attempt in {diffs}",
                                                  witness=dict(position=k, kind=kind, failed=a, retry=b)))
                if b["normalize_weights"] is not False:
                    out["violations"].append(dict(key="C20/retry-normalizes-weights", msg=f"{where} fit #{k}: retry "
                                                  f"normalize_weights={b['normalize_weights']}",
                                                  witness=dict(position=k, kind=kind, retry=b)))
                # every OTHER fit of the run must be executed exactly as in the fault-free run (one failed solve must
                # not change how the remaining fits are solved)
                for f_ in range(1, K + 1):
                    if f_ == k:
                        continue
                    got = [{k_: v_ for k_, v_ in e_.items() if k_ not in ("solver", "outcome")} for e_ in inj.events
                           if e_["fit"] == f_]
                    if got != base_events.get(f_):
                        fields = sorted({n_ for a_, b_ in zip(got, base_events.get(f_, [])) for n_ in a_ if a_[n_] != b_.get(n_)}) \
                            or ["number-of-solver-calls"]
                        out["violations"].append(dict(
                            key=f"C20/other-fit-executed-differently/{'+'.join(fields)}",
                            msg=f"{where} fit #{k} failed ({kind}); fit #{f_} ({inj.roles.get(f_)}) was then run with "
                                f"different {fields} than in the fault-free run: {got[:1]} vs {base_events.get(f_, [])[:1]}",
                            witness=dict(position=k, kind=kind, other_fit=f_)))
                        break
                eq, ties, detail = tables_equal(res0, res)
                out["counters"]["tie_cells"] = out["counters"].get("tie_cells", 0) + ties
                if not eq:
                    lam = ("lambda>0" if call["model_parameters"].get("lambda_") else "lambda=0") + (
                        "/weight-ratio-below-1e-5" if el.meta.get("extreme_weights") else "")
                    out["violations"].append(dict(key=f"C20/tables-differ-from-fault-free-run/{lam}",
                                                  msg=f"{where} fit #{k} ({kind}): {detail}",
                                                  witness=dict(position=k, kind=kind)))
                else:
                    out["counters"]["tables_identical"] = out["counters"].get("tables_identical", 0) + (ties == 0)
                sigs.append([call["pi_method"], role, kind, bool(call["model_parameters"].get("lambda_")),
                             len(call["estimands"]), len(call["prediction_intervals"])])
        # every position of the failing SOLVE (below fit()), lambda_=0 runs compared exactly -------------------------
        if not spec.get("only"):
            S = base_solves
            for n_ in range(1, S + 1):
                kind = "solver_error" if (n_ + spec["i"]) % 2 else "inaccurate_warning"
                inj.n_fits, inj.events, inj.target, inj.injected = 0, [], None, 0
                inj.n_solves, inj.solve_target, inj.solve_done, inj.solve_hit_fit = 0, (n_, kind), False, None
                res, exc = _run(el, feed, call)
                inj.solve_target = None
                out["counters"]["solve_level_faults"] = out["counters"].get("solve_level_faults", 0) + 1
                if not inj.solve_done:
                    out["inconclusive"] = f"solve-level fault {n_} of {S} was never reached"
                    continue
                role = inj.roles.get(inj.solve_hit_fit, "?")
                if exc is not None:
                    info = harness.exc_info(exc)
                    out["violations"].append(dict(key=f"C20/run-fails-after-failed-solve/{kind}/{info['type']}",
                                                  msg=f"{call['pi_method']}/{role}: solve #{n_} of {S} failed ({kind}): "
                                                      f"run raised {info['type']}: {info['msg']}",
                                                  witness=dict(solve=n_, kind=kind, exc=info)))
                    continue
                evs = [e_ for e_ in inj.events if e_["fit"] == inj.solve_hit_fit]
                if len(evs) < 2 or evs[-1]["normalize_weights"] is not False:
                    out["violations"].append(dict(key="C20/no-retry-observed/solve-level",
                                                  msg=f"{call['pi_method']}/{role}: solve #{n_} failed ({kind}) but the "
                                                      f"fit was not re-run without weight normalisation: {evs}",
                                                  witness=dict(solve=n_, kind=kind)))
                    continue
                eq, ties, detail = tables_equal(res0, res)
                if not eq:
                    lam = ("lambda>0" if call["model_parameters"].get("lambda_") else "lambda=0") + (
                        "/weight-ratio-below-1e-5" if el.meta.get("extreme_weights") else "")
                    out["violations"].append(dict(key=f"C20/tables-differ-from-fault-free-run/{lam}",
                                                  msg=f"{call['pi_method']}/{role}: solve #{n_} of {S} failed ({kind}) below "
                                                      f"fit(): {detail}", witness=dict(solve=n_, kind=kind)))
                sigs.append([call["pi_method"], role, "solve-level:" + kind, bool(call["model_parameters"].get("lambda_")),
                             len(call["estimands"]), len(call["prediction_intervals"])])
        # two failing solves in one run (first and last fit, and two random positions) ------------------------------
        if K >= 2 and not spec.get("only"):
            rng2 = gen.rng_for(spec["seed"], PROPERTY, spec["i"], salt=99)
            pairs = [(1, K)]
            a_, b_ = sorted(int(x) for x in rng2.choice(np.arange(1, K + 1), size=2, replace=False))
            pairs.append((a_, b_))
            for pair in pairs:
                kind = "solver_error" if pair[0] % 2 else "inaccurate_warning"
                inj.n_fits = 0
                inj.events = []
                inj.target = (set(pair), kind)
                inj.injected = 0
                res, exc = _run(el, feed, call)
                out["counters"]["double_fault_runs"] = out["counters"].get("double_fault_runs", 0) + 1
                if exc is not None:
                    info = harness.exc_info(exc)
                    out["violations"].append(dict(key=f"C20/run-fails-after-two-failed-solves/{info['type']}",
                                                  msg=f"{call['pi_method']}: faults at fits {pair} ({kind}): run raised "
                                                      f"{info['type']}: {info['msg']}", witness=dict(positions=pair, exc=info)))
                    continue
                eq, ties, detail = tables_equal(res0, res)
                if not eq:
                    lam = ("lambda>0" if call["model_parameters"].get("lambda_") else "lambda=0") + (
                        "/weight-ratio-below-1e-5" if el.meta.get("extreme_weights") else "")
                    out["violations"].append(dict(key=f"C20/tables-differ-from-fault-free-run/{lam}",
                                                  msg=f"{call['pi_method']}: faults at fits {pair}: {detail}",
                                                  witness=dict(positions=pair)))
            inj.target = None
        out["sets"]["inaccuracy_warning_attributed_to"] = [inaccuracy_warning_origin()[1]]
        out["sets"]["positions"] = sigs
        out["sigs"] = sigs
        out["nontrivial"] = bool(sigs)
        if sigs:
            out["sig"] = sigs[0][:1] + sigs[0][3:]
        if out["violations"]:
            out["inputs"] = gen.materialise(el, feed, call)
        if spec["i"] % 5 == 0:
            out["sample"] = gen.jsonable(dict(election=el.meta, call=call, fits_per_run=K,
                                              last_injected_events=inj.events[:4]))
    return out


def _run(el, feed, call):
    # a private, seeded numpy global state makes scipy's unseeded bootstrap repeatable between the two runs
    st = np.random.get_state()
    np.random.seed(12345)
    try:
        return harness.run_estimates(el, feed, call)
    finally:
        np.random.set_state(st)


def finalize(agg):
    c = agg["counters"]
    if not c.get("retries_observed"):
        return "no retry was ever observed", {}
    return None, dict(fault_positions_enumerated=c.get("fault_positions", 0), injected_runs=c.get("injected_runs", 0))
