"""Seeded synthetic elections, live feeds and call arguments (DESIGN.md section 3.1).

Everything here is plain data: an Election holds the preprocessed baseline frame, the raw config and the true
final results; make_feed() derives a live feed from it.  The same (seed, property, case index) always gives the
same case; replay files additionally store the materialised frames so a replay does not depend on generator drift.
"""
import copy
import io
import json
import zlib

import numpy as np
import pandas as pd

GEN_VERSION = 9

STATES = ["AA", "BB", "CC", "DD"]
CLASSES = ["urban", "suburban", "rural", "exurb"]
DISTRICT_POOLS = [["1", "2", "10", "11"], ["1", "10", "2"], ["3", "12", "1"], ["7", "8"], ["1", "2", "3", "4", "10"]]
ELECTION_ID = "2030-11-05_USA_G"


def rng_for(seed, prop, idx, salt=0):
    pid = zlib.crc32(str(prop).encode()) & 0xFFFF
    return np.random.default_rng(np.random.SeedSequence([int(seed) & 0xFFFFFFFF, pid, int(idx), int(salt)]))


def choice(rng, seq, p=None):
    return seq[int(rng.choice(len(seq), p=p))]


class Election:
    def __init__(self, pre, config, office, geo_type, truth, meta):
        self.election_id = ELECTION_ID
        self.pre = pre
        self.config = config
        self.office = office
        self.geo_type = geo_type
        self.truth = truth  # DataFrame: geographic_unit_fips, turnout, dem, gop (final)
        self.meta = meta

    @property
    def district(self):
        return self.office in ("Y", "H", "Z")

    def aggregates_available(self):
        return self.config[self.election_id][0]["aggregates"]


def make_election(rng, o=None):
    """o: dict of options; every missing option is drawn from rng."""
    o = dict(o or {})
    district = o.get("district", bool(rng.random() < 0.35))
    n_states = o.get("n_states", int(rng.integers(1, 5)))
    states = STATES[:n_states]
    n_units_target = o.get("n_units", int(rng.integers(30, 160)))
    cps = o.get("counties_per_state", int(rng.integers(2, 9)))
    n_class = o.get("n_class", int(rng.integers(1, 5)))
    classes = CLASSES[:n_class]
    equal_baseline = o.get("equal_baseline", False)
    noise = o.get("noise", choice(rng, ["gauss", "t2", "hetero"]))
    noise_scale = o.get("noise_scale", float(rng.choice([0.02, 0.05, 0.1, 0.2])))
    n_zero = o.get("n_zero_baseline", int(rng.choice([0, 0, 1, 2, 3])))
    cov = o.get("cov", choice(rng, ["normal", "uniform", "heavy"]))
    geo_county = o.get("geo_county", False) and not district
    if geo_county:  # units are whole counties: one unit per county, so take many counties
        cps = max(cps, n_units_target // n_states)

    rows = []
    per_county = max(1, int(round(n_units_target / (n_states * cps))))
    for si, st in enumerate(states):
        swing = rng.normal(0, 0.08)
        mswing = rng.normal(0, 0.06)
        pool = choice(rng, DISTRICT_POOLS) if district else [None]
        for c in range(cps):
            county = f"{si + 10:02d}{c + 1:03d}"
            cls = classes[int(rng.integers(0, n_class))]
            ceff = rng.normal(0, 0.04) * o.get("county_effect_scale", 1.0)
            n_here = 1 if geo_county else max(1, int(per_county + rng.integers(-1, 2)))
            if o.get("county_size_spread") and not geo_county:
                n_here = max(1, int(round(per_county * np.exp(rng.normal(0, o["county_size_spread"])))))
            # a county is split over one or two districts
            dists = [choice(rng, pool)]
            if district and rng.random() < 0.4 and len(pool) > 1:
                dists.append(choice(rng, [d for d in pool if d != dists[0]]))
            for p in range(n_here):
                d = dists[p % len(dists)]
                if geo_county:
                    fips = county
                elif district:
                    fips = f"{d}_{county}_{p + 1:03d}"
                else:
                    fips = f"{county}_{p + 1:03d}"
                if equal_baseline:
                    bt = int(o.get("baseline_size", 1000))
                else:
                    lo_, hi_ = o.get("size_range", (50, 50000))
                    bt = int(np.exp(rng.uniform(np.log(lo_), np.log(hi_))))
                share = float(np.clip(rng.beta(5, 5), 0.05, 0.95))
                two = int(bt * rng.uniform(0.9, 1.0))
                bd = int(round(two * share))
                bg = two - bd
                if cov == "normal":
                    x1, x2 = rng.normal(0, 1), rng.normal(0, 1)
                elif cov == "uniform":
                    x1, x2 = rng.uniform(-1, 1), rng.uniform(0, 3)
                else:
                    x1, x2 = rng.standard_t(3), rng.normal(0, 1)
                if noise == "gauss":
                    e1, e2 = rng.normal(0, noise_scale), rng.normal(0, noise_scale / 2)
                elif noise == "t2":
                    e1, e2 = rng.standard_t(2) * noise_scale / 2, rng.standard_t(2) * noise_scale / 4
                elif noise == "xhetero":  # spread depends on the covariate (still i.i.d. across units)
                    s = noise_scale * (0.3 + abs(x1))
                    e1, e2 = rng.normal(0, s), rng.normal(0, s / 2)
                else:
                    s = noise_scale * (1 + 3 * (bt < 500))
                    e1, e2 = rng.normal(0, s), rng.normal(0, s / 2)
                rel = np.clip(swing + ceff + 0.05 * x1 + e1, -0.45, 0.9)
                tt = max(0, int(round(bt * (1 + rel))))
                nshare = float(np.clip(share + mswing + 0.03 * x2 + e2, 0.02, 0.98))
                two_t = int(tt * rng.uniform(0.92, 1.0))
                td = int(round(two_t * nshare))
                tg = two_t - td
                rows.append(
                    dict(
                        postal_code=st,
                        county_fips=county,
                        geographic_unit_fips=fips,
                        geographic_unit_type=("county" if geo_county else ("precinct-district" if district else "precinct")),
                        county_classification=cls,
                        district=d,
                        baseline_turnout=bt,
                        baseline_dem=bd,
                        baseline_gop=bg,
                        x1=float(x1),
                        x2=float(x2),
                        t_turnout=tt,
                        t_dem=td,
                        t_gop=tg,
                    )
                )
    df = pd.DataFrame(rows)
    if o.get("tiny_county", bool(rng.random() < 0.15)) and not equal_baseline and len(df) > 12:
        # a county of hamlets: one to three baseline voters per unit (predicted turnout of a group can be below 1)
        cty = df.county_fips.iloc[int(rng.integers(0, len(df)))]
        single = bool(rng.random() < 0.5)  # only one hamlet with voters: the whole county can predict < 1 vote
        for n_, j in enumerate(df.index[df.county_fips == cty]):
            bt = int(rng.integers(1, 4))
            bd = int(rng.integers(0, bt + 1))
            tt = int(rng.integers(0, 4))
            td = int(rng.integers(0, tt + 1))
            if single and n_ > 0:
                bt = bd = tt = td = 0
            elif single:
                bt, bd = 1, int(rng.integers(0, 2))
            df.loc[j, ["baseline_turnout", "baseline_dem", "baseline_gop", "t_turnout", "t_dem", "t_gop"]] = [
                bt, bd, bt - bd, tt, td, tt - td]
    if o.get("uncontested", bool(rng.random() < 0.1)) and len(df) > 12:
        # an uncontested group: every two-party vote of one county (district offices: of one district) goes to one side
        col = "district" if district and rng.random() < 0.6 else "county_fips"
        j0 = int(rng.integers(0, len(df)))
        m_ = (df[col] == df[col].iloc[j0]) & (df["postal_code"] == df["postal_code"].iloc[j0])
        if rng.random() < 0.5:
            df.loc[m_, "baseline_dem"] += df.loc[m_, "baseline_gop"]
            df.loc[m_, "t_dem"] += df.loc[m_, "t_gop"]
            df.loc[m_, ["baseline_gop", "t_gop"]] = 0
        else:
            df.loc[m_, "baseline_gop"] += df.loc[m_, "baseline_dem"]
            df.loc[m_, "t_gop"] += df.loc[m_, "t_dem"]
            df.loc[m_, ["baseline_dem", "t_dem"]] = 0
    if o.get("party_surge", bool(rng.random() < 0.08)) and len(df) > 12:
        # one party more than doubles (or collapses) in many units while turnout stays ordinary: relative changes of a
        # single party far outside the band the turnout-factor gate allows for turnout
        up = bool(rng.random() < 0.7)
        for j in df.index[rng.random(len(df)) < float(rng.uniform(0.3, 0.7))]:
            two_t = int(df.loc[j, "t_dem"] + df.loc[j, "t_gop"])
            bd = int(df.loc[j, "baseline_dem"])
            nd = int(min(two_t * 0.97, bd * rng.uniform(2.1, 3.2))) if up else int(bd * rng.uniform(0.1, 0.4))
            nd = max(0, min(nd, two_t))
            df.loc[j, ["t_dem", "t_gop"]] = [nd, two_t - nd]
    if n_zero and len(df) > 10:
        idx = rng.choice(len(df), size=min(n_zero, len(df) // 10), replace=False)
        df.loc[idx, ["baseline_turnout", "baseline_dem", "baseline_gop"]] = 0
    truth = df[["geographic_unit_fips", "t_turnout", "t_dem", "t_gop"]].rename(
        columns={"t_turnout": "turnout", "t_dem": "dem", "t_gop": "gop"}
    )
    pre = df.drop(columns=["t_turnout", "t_dem", "t_gop"])
    if not district:
        pre = pre.drop(columns=["district"])
    for c in ("postal_code", "county_fips", "geographic_unit_fips", "geographic_unit_type", "county_classification"):
        pre[c] = pre[c].astype(str)
    if district:
        pre["district"] = pre["district"].astype(str)
    if o.get("float_baseline", bool(rng.random() < 0.5)):
        for c in ("baseline_turnout", "baseline_dem", "baseline_gop"):
            pre[c] = pre[c].astype(float)
    office = o.get("office", choice(rng, ["Y", "H", "Z"]) if district else choice(rng, ["G", "S", "P"]))
    geo_type = "county" if geo_county else ("precinct-district" if district else "precinct")
    aggs = ["postal_code", "county_classification", "county_fips"] + (["district"] if district else []) + ["unit"]
    fes = ["postal_code", "county_classification", "county_fips"] + (["district"] if district else [])
    config = {
        ELECTION_ID: [
            {
                "office": office,
                "states": list(states),
                "geographic_unit_types": [geo_type],
                "historical_election": [],
                "features": ["x1", "x2"],
                "aggregates": aggs,
                "fixed_effect": fes,
            }
        ]
    }
    meta = dict(
        district=district, n_states=n_states, n_units=len(pre), cps=cps, n_class=n_class, noise=noise, cov=cov,
        equal_baseline=equal_baseline, n_zero=int((pre.baseline_turnout == 0).sum()),
    )
    return Election(pre.reset_index(drop=True), config, office, geo_type, truth.reset_index(drop=True), meta)


def make_feed(rng, el, o=None):
    """Live feed for an election.  Returns (feed DataFrame, info dict mapping fips -> status)."""
    o = dict(o or {})
    thr = o.get("threshold", 100)
    frac_rep = o.get("frac_reporting", float(rng.uniform(0.3, 0.85)))
    p_partial = o.get("p_partial", 0.5)  # among non-reporting: partial vs zero
    n_missing = o.get("n_missing", int(rng.choice([0, 0, 1, 2, 5])))
    n_unexpected = o.get("n_unexpected", int(rng.choice([0, 0, 1, 2, 5])))
    boundary = o.get("boundary", True)
    partial_above = o.get("partial_above", 0.0)  # prob. a partial unit already exceeds what the model will predict
    float_counts = o.get("float_counts", bool(rng.random() < 0.5))
    strange = o.get("p_strange", 0.03)
    unexpected_kinds = o.get("unexpected_kinds", ["known_county", "known_county", "unknown_county", "unknown_county",
                                                  "unknown_district", "unknown_district", "odd_id"])
    pre, truth = el.pre, el.truth.set_index("geographic_unit_fips")
    rows, status = [], {}
    order = rng.permutation(len(pre))
    if n_missing and rng.random() < 0.5:
        # prefer zero-baseline units (conjunction "missing from the feed AND outside the model")
        zb = [i for i in order.tolist() if pre.baseline_turnout.iloc[i] == 0]
        order = np.array(zb + [i for i in order.tolist() if i not in set(zb)])
    miss = set(order[:n_missing].tolist()) if n_missing else set()
    for i in range(len(pre)):
        r = pre.iloc[i]
        f = r.geographic_unit_fips
        if i in miss:
            status[f] = "missing"
            continue
        t = truth.loc[f]
        u = rng.random()
        if u < frac_rep:
            pct = thr
            if boundary and rng.random() < 0.15:
                pct = float(choice(rng, [thr, thr + 1, 100, 101, 120])) if thr <= 100 else thr
            pct = max(pct, thr)
            tt, td, tg = int(t.turnout), int(t.dem), int(t.gop)
            if rng.random() < strange:  # strange turnout factor
                k = choice(rng, [0.2, 0.5, 2.0, 3.0])
                tt, td, tg = int(r.baseline_turnout * k), int(r.baseline_dem * k), int(r.baseline_gop * k)
            status[f] = "full"
        else:
            if rng.random() < p_partial:
                hi = max(thr - 1, 1) if thr > 1 else 0.25
                pct = float(rng.integers(1, int(hi) + 1)) if thr > 1 else 0.25
                if boundary and rng.random() < 0.2 and thr > 1:
                    pct = float(thr - 1)
                elif boundary and rng.random() < 0.15 and thr > 1:
                    # rounds to the threshold / is within any float tolerance of it, but is below it
                    pct = float(thr) - float(rng.choice([0.4, 0.25, 0.1, 0.01, 1e-4, 1e-7, 0.0]))
                    if pct == float(thr):
                        pct = float(np.nextafter(float(thr), 0.0)) if rng.random() < 0.5 else thr * (0.7 + 0.2 + 0.1) \
                            if thr * (0.7 + 0.2 + 0.1) < thr else float(np.nextafter(float(thr), 0.0))
                frac = min(pct, 100) / 100
                if rng.random() < partial_above:
                    frac = float(rng.uniform(1.3, 3.0))
                tt, td, tg = int(t.turnout * frac), int(t.dem * frac), int(t.gop * frac)
                status[f] = "partial"
            else:
                pct, tt, td, tg = 0.0, 0, 0, 0
                status[f] = "zero"
        rows.append(dict(postal_code=r.postal_code, geographic_unit_fips=f, percent_expected_vote=pct,
                         results_turnout=tt, results_dem=td, results_gop=tg))
    # unexpected units
    used = set(pre.geographic_unit_fips)
    for k in range(n_unexpected):
        kind = choice(rng, unexpected_kinds)
        base = pre.iloc[int(rng.integers(0, len(pre)))]
        st = base.postal_code
        county = base.county_fips if kind == "known_county" else f"{base.county_fips[:2]}9{k:02d}"
        if kind == "no_baseline_state":
            st, county = "ZZ", f"99{k:03d}"
        if el.district:
            d = base.district if kind != "unknown_district" else "77"
            f = f"{d}_{county}_9{k:02d}"
        elif el.geo_type == "county":
            f = county if kind != "known_county" else f"{county}9{k}"
        else:
            f = f"{county}_9{k:02d}"
        if kind == "odd_id":
            # id formats a results provider may send for a unit that belongs to no county: an empty county part
            # ("_ABSENTEE"), or fewer parts than usual
            f = (f"{base.district}__9{k:02d}" if el.district else choice(rng, [f"_ABSENTEE{k}", f"_9{k:02d}"]))
        if f in used:
            continue
        used.add(f)
        pct = float(choice(rng, [0, 40, 100, 120]))
        tt = 0 if pct == 0 and rng.random() < 0.7 else int(rng.integers(0, o.get("unexpected_max", 5000)))
        td = int(tt * rng.uniform(0.1, 0.8))
        tg = int((tt - td) * rng.uniform(0.7, 1.0))
        rows.append(dict(postal_code=st, geographic_unit_fips=f, percent_expected_vote=pct,
                         results_turnout=tt, results_dem=td, results_gop=tg))
        status[f] = "unexpected"
    feed = pd.DataFrame(rows, columns=["postal_code", "geographic_unit_fips", "percent_expected_vote",
                                       "results_turnout", "results_dem", "results_gop"])
    feed["postal_code"] = feed["postal_code"].astype(str)
    feed["geographic_unit_fips"] = feed["geographic_unit_fips"].astype(str)
    if float_counts:
        for c in ("results_turnout", "results_dem", "results_gop"):
            feed[c] = feed[c].astype(float)
    if o.get("shuffle", True):
        feed = feed.iloc[rng.permutation(len(feed))].reset_index(drop=True)
    return feed, status


def aggregate_choices(el):
    return [a for a in el.aggregates_available()]


def random_aggregates(rng, el, must=None, allow_unit=True):
    avail = [a for a in aggregate_choices(el) if allow_unit or a != "unit"]
    k = int(rng.integers(1, len(avail) + 1))
    sel = [avail[i] for i in rng.permutation(len(avail))[:k]]
    for m in must or []:
        if m not in sel:
            sel.append(m)
    order = rng.permutation(len(sel))
    return [sel[i] for i in order]


def random_alphas(rng, k=None):
    pool = [0.5, 0.6, 0.7, 0.8, 0.9, 0.95, 0.99]
    k = k or int(rng.integers(1, 4))
    extra = [round(float(rng.uniform(0.05, 0.97)), 3) for _ in range(2)]
    sel = list(dict.fromkeys([pool[i] for i in rng.permutation(len(pool))[:k]]))
    if rng.random() < 0.3:
        sel[0] = extra[0]
    return sel


def random_fixed_effects(rng, el, p_any=0.5):
    if rng.random() > p_any:
        return {} if rng.random() < 0.5 else []
    fes = ["postal_code", "county_classification"] + (["district"] if el.district else [])
    if rng.random() < 0.15:
        fes.append("county_fips")
    k = int(rng.integers(1, min(2, len(fes)) + 1))
    sel = [fes[i] for i in rng.permutation(len(fes))[:k]]
    mode = rng.random()
    if mode < 0.4:
        return sel
    out = {}
    for fe in sel:
        if rng.random() < 0.5:
            out[fe] = "all"
        else:
            levels = sorted(set(el.pre[fe]))
            pick = [levels[i] for i in rng.permutation(len(levels))[: max(1, len(levels) // 2)]]
            if rng.random() < 0.3:
                pick.append("ABSENT")
            out[fe] = pick
    return out


def materialise(el, feed, call):
    """JSON-able snapshot of the inputs of one get_estimates call."""
    return dict(
        gen_version=GEN_VERSION,
        election_id=el.election_id,
        office=el.office,
        geo_type=el.geo_type,
        config=el.config,
        pre_csv=el.pre.to_csv(index=False),
        pre_dtypes={c: str(t) for c, t in el.pre.dtypes.items()},
        truth_csv=el.truth.to_csv(index=False),
        feed_csv=feed.to_csv(index=False),
        feed_dtypes={c: str(t) for c, t in feed.dtypes.items()},
        pre_extra_csv=(el.pre_extra.to_csv(index=False) if getattr(el, "pre_extra", None) is not None else None),
        pre_extra_first=bool(getattr(el, "pre_extra_first", False)),
        call=call,
        meta=el.meta,
    )


_STRCOLS = {"geographic_unit_fips", "county_fips", "district", "postal_code", "county_classification",
            "geographic_unit_type"}


def _read(csv, dtypes):
    df = pd.read_csv(io.StringIO(csv), dtype={c: str for c in _STRCOLS}, keep_default_na=False, na_values=[""],
                     float_precision="round_trip")
    for c, t in dtypes.items():
        if c in df.columns and c not in _STRCOLS:
            if t.startswith("int"):
                df[c] = df[c].astype("int64")
            elif t.startswith("float"):
                df[c] = df[c].astype("float64")
    return df


def make_categorical(el, col):
    import pandas as _pd

    cats = sorted(set(el.pre[col].astype(str)))
    extra = ["0000_unused_first", "zz_unused_last"] + ([cats[len(cats) // 2] + "_unused_mid"] if cats else [])
    el.pre[col] = _pd.Categorical(el.pre[col].astype(str), categories=sorted(cats + extra))
    el.meta["cat_key"] = col


def dematerialise(m):
    pre = _read(m["pre_csv"], m["pre_dtypes"])
    truth = _read(m["truth_csv"], {})
    feed = _read(m["feed_csv"], m["feed_dtypes"])
    el = Election(pre, m["config"], m["office"], m["geo_type"], truth, m.get("meta", {}))
    if m.get("pre_extra_csv"):
        el.pre_extra = _read(m["pre_extra_csv"], m["pre_dtypes"])
        el.pre_extra_first = bool(m.get("pre_extra_first"))
    if el.meta.get("cat_key"):
        make_categorical(el, el.meta["cat_key"])
    if el.meta.get("int_key"):
        for col in ("district", "county_fips"):
            if col in el.pre.columns and el.pre[col].notna().all() and (col != "district" or el.district):
                el.pre[col] = el.pre[col].astype(int)
    return el, feed, m["call"]


def jsonable(x):
    """Best-effort conversion of numpy / pandas scalars and containers to JSON types."""
    if isinstance(x, dict):
        return {str(k): jsonable(v) for k, v in x.items()}
    if isinstance(x, (list, tuple, set)):
        return [jsonable(v) for v in x]
    if isinstance(x, (np.integer,)):
        return int(x)
    if isinstance(x, (np.floating,)):
        v = float(x)
        return v if np.isfinite(v) else repr(v)
    if isinstance(x, float):
        return x if np.isfinite(x) else repr(x)
    if isinstance(x, (np.bool_,)):
        return bool(x)
    if isinstance(x, np.ndarray):
        return jsonable(x.tolist())
    if isinstance(x, pd.DataFrame):
        return jsonable(x.head(8).to_dict(orient="records"))
    if isinstance(x, pd.Series):
        return jsonable(x.head(8).tolist())
    if x is None or isinstance(x, (str, int, bool)):
        return x
    return repr(x)


def dumps(x):
    return json.dumps(jsonable(x), sort_keys=True)


def clone_call(call):
    return copy.deepcopy(call)
