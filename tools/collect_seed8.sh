#!/bin/sh
# usage: tools/collect_seed7.sh C01  -- round 8: /tmp/seed8_<ID> -> seeded/<ID>g
ID=$1; W=/tmp/seed8_$ID; D=/verif/seeded/${ID}h
mkdir -p $D
git -C $W diff -- src > $D/patch.diff
cp $W/demo_$ID.py $D/ 2>/dev/null || cp $W/demo*.py $D/
cp $W/meta.json $D/meta.json
echo "$ID: $(wc -l < $D/patch.diff) lines"
