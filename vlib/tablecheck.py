"""Monitors over the tables returned by get_estimates: conservation (C01), aggregation (C02), floors (C03)."""
import math

import numpy as np

from . import reference as ref

ALLOWED_PREFIX = "non-modeled: "
VOTE_ESTIMANDS = ("turnout", "dem", "gop")


def V(key, msg, **witness):
    return dict(key=key, msg=msg, witness=witness)


def unit_rows(res, client, estimands):
    """Rows of the unit table (from the returned tables, or from the results handler when 'unit' was not
    requested).  Returns (rows, source, category_columns)."""
    if res is not None and "unit_data" in res:
        df = res["unit_data"]
        cat_cols = [c for c in df.columns if c.startswith("unit_category")]
        return ref.rows(df), "returned", cat_cols
    rh = client.results_handler
    merged = {}
    order = []
    for e in estimands:
        for r in ref.rows(rh.unit_data[e]):
            f = r["geographic_unit_fips"]
            if f not in merged:
                merged[f] = dict(r)
                order.append((f, 1))
            else:
                merged[f].update(r)
    # duplicates inside one estimand frame are detected by the caller through the count below
    rows = []
    for e in estimands[:1]:
        for r in ref.rows(rh.unit_data[e]):
            rows.append(merged[r["geographic_unit_fips"]])
    return rows, "handler", ["unit_category"]


def feed_value(fc, estimand):
    v = fc["margin"] if estimand == "margin" else fc[estimand]
    return 0 if ref.isnan(v) else v  # a count that has not arrived (null cell) carries no votes


def agg_tables(res):
    return {k: v for k, v in res.items() if k in ref.LEVEL_OF}


# ---------------------------------------------------------------------------------------------------------------
# C01


def check_conservation(el, feed, call, res, client):
    out, cnt = [], {}
    estimands = call["estimands"]
    thr = call["percent_reporting_threshold"]
    policy = call["handle_unreporting"]
    keymap = ref.unit_key_map(el, feed)
    fcs, dup = ref.feed_counts(feed)
    urows, source, cat_cols = unit_rows(res, client, estimands)
    cnt["unit_rows_checked"] = len(urows)
    # a. every unit exactly once ------------------------------------------------------------------------------
    baseline_ids = set(el.pre.geographic_unit_fips)
    expect = set(fcs)
    if policy == "zero":
        expect |= baseline_ids
    seen = {}
    for u in urows:
        seen[u["geographic_unit_fips"]] = seen.get(u["geographic_unit_fips"], 0) + 1
    missing = sorted(expect - set(seen))
    extra = sorted(set(seen) - expect)
    dups = sorted(f for f, n in seen.items() if n > 1)
    if missing:
        kinds = sorted({"in-baseline" if f in baseline_ids else "not-in-baseline" for f in missing})
        out.append(V(f"C01/unit-missing/{'+'.join(kinds)}", f"{len(missing)} feed units absent from unit table",
                     units=missing[:5]))
    if extra:
        out.append(V("C01/unit-invented", f"{len(extra)} units in unit table that are not in the feed",
                     units=extra[:5]))
    if dups:
        out.append(V("C01/unit-duplicated", f"{len(dups)} units more than once in unit table", units=dups[:5]))
    # b. exactly one category -----------------------------------------------------------------------------------
    if cat_cols != ["unit_category"]:
        out.append(V("C01/category-column", f"unit table category columns are {cat_cols}", columns=cat_cols))
        cat_col = cat_cols[0] if cat_cols else None
    else:
        cat_col = "unit_category"
    bad_cat, bad_res, bad_rep = [], [], []
    for u in urows:
        f = u["geographic_unit_fips"]
        cat = u.get(cat_col) if cat_col else None
        u["unit_category"] = cat
        if not (cat in ("expected", "unexpected") or (isinstance(cat, str) and cat.startswith(ALLOWED_PREFIX)
                                                       and len(cat) > len(ALLOWED_PREFIX))):
            bad_cat.append((f, cat))
        fc = fcs.get(f)
        has_null = False
        for e in estimands:
            want = feed_value(fc, e) if fc is not None else 0
            got = u.get(f"results_{e}")
            raw = (fc["margin"] if e == "margin" else fc[e]) if fc is not None else 0
            if ref.isnan(raw):
                has_null = True
                if not (ref.isnan(got) or got == 0):
                    bad_res.append((f, e, got, "null cell"))
                continue
            if not ref.close(got, want, rel=0, abs_=0):
                bad_res.append((f, e, got, want))
        pct = fc["pct"] if fc is not None else 0
        if has_null and policy == "zero":
            pct = 0  # the zero policy treats a row with a missing requested count as not reporting at all
            cnt["null_cell_units"] = cnt.get("null_cell_units", 0) + 1
        elif has_null:
            cnt["null_cell_units"] = cnt.get("null_cell_units", 0) + 1
        want_rep = 1 if (cat == "expected" and pct >= thr) else 0
        if cat == "expected" or cat is None or cat == "unexpected" or str(cat).startswith(ALLOWED_PREFIX):
            if u.get("reporting") != want_rep:
                bad_rep.append((f, cat, pct, u.get("reporting")))
    if bad_cat:
        out.append(V("C01/category-value", f"{len(bad_cat)} units with an invalid category", units=bad_cat[:5]))
    if bad_res:
        out.append(V("C01/unit-results-differ-from-feed", f"{len(bad_res)} unit rows whose counted votes differ "
                     "from the feed", units=bad_res[:5]))
    if bad_rep:
        out.append(V("C01/unit-reporting-flag", f"{len(bad_rep)} unit rows with wrong reporting flag",
                     units=bad_rep[:5]))
    # c. aggregate tables ---------------------------------------------------------------------------------------
    for tname, tdf in agg_tables(res).items():
        keys = ref.table_keys(tdf)
        groups, skipped = ref.group_units(urows, keymap, keys)
        trows = ref.rows(tdf)
        tkeys = {}
        for r in trows:
            k = tuple(r[c] for c in keys)
            tkeys[k] = tkeys.get(k, 0) + 1
        cnt["groups_checked"] = cnt.get("groups_checked", 0) + len(trows)
        level = tname + ("/district-office" if el.district else "")
        dupk = [k for k, n in tkeys.items() if n > 1]
        if dupk:
            out.append(V(f"C01/{level}/group-duplicated", f"{tname}: {len(dupk)} groups duplicated "
                         f"(n_estimands={len(estimands)})", groups=dupk[:5], n_estimands=len(estimands)))
        miss = [k for k in groups if k not in tkeys]
        inv = [k for k in tkeys if k not in groups]
        if miss:
            why = sorted({("only-outside-model-units" if all(u["unit_category"] != "expected" for u in groups[k])
                           else "has-modelled-units") for k in miss})
            out.append(V(f"C01/{level}/group-missing/{'+'.join(why)}", f"{tname}: {len(miss)} groups with units "
                         "but no row", groups=miss[:5]))
        if inv:
            out.append(V(f"C01/{level}/group-invented", f"{tname}: {len(inv)} rows for groups without units",
                         groups=inv[:5]))
        if dupk:
            continue
        for r in trows:
            k = tuple(r[c] for c in keys)
            us = groups.get(k)
            if us is None:
                continue
            want_rep = sum(1 for u in us if u["unit_category"] == "expected" and u.get("reporting") == 1)
            if r.get("reporting") != want_rep:
                out.append(V(f"C01/{level}/reporting-count", f"{tname}{k}: reporting {r.get('reporting')} != "
                             f"{want_rep}", group=k))
            for e in estimands:
                tot = 0
                for u in us:
                    fc = fcs.get(u["geographic_unit_fips"])
                    tot += feed_value(fc, e) if fc is not None else 0
                got = r.get(f"results_{e}")
                if e == "margin":
                    pt = r.get("pred_turnout")
                    if pt is None or ref.isnan(pt) or ref.isnan(got):
                        out.append(V(f"C01/{level}/margin-nan", f"{tname}{k}: results_margin={got} "
                                     f"pred_turnout={pt}", group=k))
                    elif pt == 0:
                        if got != 0:
                            out.append(V(f"C01/{level}/margin-zero-turnout", f"{tname}{k}: turnout 0 but "
                                         f"results_margin {got}", group=k))
                    elif not ref.close(got * pt, tot, rel=1e-9, abs_=1e-6):
                        out.append(V(f"C01/{level}/results-margin", f"{tname}{k}: results_margin*pred_turnout="
                                     f"{got * pt} but summed live margin={tot}", group=k, got=got * pt, want=tot))
                else:
                    if not ref.close(got, tot, rel=0, abs_=0):
                        out.append(V(f"C01/{level}/results-sum", f"{tname}{k}: results_{e}={got} but feed sum="
                                     f"{tot}", group=k, got=got, want=tot, estimand=e))
    return out, cnt


# ---------------------------------------------------------------------------------------------------------------
# C02


def check_aggregation(el, feed, call, res, client):
    out, cnt = [], {}
    estimands = call["estimands"]
    alphas = call["prediction_intervals"]
    est = call["pi_method"]
    keymap = ref.unit_key_map(el, feed)
    urows, source, cat_cols = unit_rows(res, client, estimands)
    cat_col = cat_cols[0] if cat_cols else None
    for u in urows:
        u["unit_category"] = u.get(cat_col) if cat_col else None
    called = set(call.get("lhs_called_contests") or []) | set(call.get("rhs_called_contests") or []) | set(
        call.get("stop_model_call") or [])
    tables = agg_tables(res)
    for tname, tdf in tables.items():
        keys = ref.table_keys(tdf)
        groups, _ = ref.group_units(urows, keymap, keys)
        trows = ref.rows(tdf)
        seen = set()
        level = tname + ("/district-office" if el.district else "")
        for r in trows:
            k = tuple(r[c] for c in keys)
            if k in seen:
                continue  # duplicates are C01's business
            seen.add(k)
            us = groups.get(k)
            if us is None:
                continue
            cnt["groups_checked"] = cnt.get("groups_checked", 0) + 1
            n_non = sum(1 for u in us if u["unit_category"] == "expected" and u.get("reporting") == 0)
            n_rep = len(us) - n_non
            if n_non == 0:
                cnt["groups_without_nonreporting"] = cnt.get("groups_without_nonreporting", 0) + 1
            if n_rep == 0:
                cnt["groups_without_counted_units"] = cnt.get("groups_without_counted_units", 0) + 1
            if est in ("nonparametric", "gaussian"):
                for e in estimands:
                    cols = [f"pred_{e}"]
                    if est == "nonparametric":
                        for a in alphas:
                            cols += [f"lower_{a}_{e}", f"upper_{a}_{e}"]
                    for c in cols:
                        tot = 0.0
                        for u in us:
                            tot += float(u[c])
                        if not ref.close(r.get(c), tot, rel=0, abs_=0.0):
                            kind = "pred" if c.startswith("pred") else "interval"
                            out.append(V(f"C02/{est}/{level}/{kind}-not-sum-of-units", f"{tname}{k}: {c}={r.get(c)} "
                                         f"but units sum to {tot}", group=k, column=c, got=r.get(c), want=tot))
                    if est == "gaussian":
                        res_g = sum(float(u[f"results_{e}"]) for u in us)
                        for a in alphas:
                            lo, hi = r.get(f"lower_{a}_{e}"), r.get(f"upper_{a}_{e}")
                            if n_non == 0 and not (lo == res_g and hi == res_g):
                                out.append(V(f"C02/gaussian/{level}/interval-on-wrong-row", f"{tname}{k}: no "
                                             f"nonreporting units but interval [{lo},{hi}] != counted {res_g}",
                                             group=k))
                            elif not (lo >= res_g and hi >= res_g):
                                out.append(V(f"C02/gaussian/{level}/interval-below-own-counted", f"{tname}{k}: "
                                             f"interval [{lo},{hi}] below its own counted votes {res_g}", group=k))
            else:  # bootstrap
                pt = sum(float(u["pred_turnout"]) for u in us)
                pm = sum(float(u["pred_margin"]) for u in us)
                got_pt = r.get("pred_turnout")
                if not ref.close(got_pt, pt, rel=1e-9, abs_=1e-6):
                    out.append(V(f"C02/bootstrap/{level}/turnout-not-sum-of-units", f"{tname}{k}: pred_turnout="
                                 f"{got_pt} but its units sum to {pt}", group=k, got=got_pt, want=pt))
                    continue
                name = "_".join(str(x) for x in k)
                top = keys == ["postal_code"] or keys == ["postal_code", "district"]
                if top and name in called:
                    cnt["called_rows_skipped"] = cnt.get("called_rows_skipped", 0) + 1
                    continue
                want = (pm / pt) if pt != 0 else 0.0
                if not ref.close(r.get("pred_margin"), want, rel=1e-9, abs_=1e-9):
                    out.append(V(f"C02/bootstrap/{level}/margin-not-sum-of-units", f"{tname}{k}: pred_margin="
                                 f"{r.get('pred_margin')} but units give {want}", group=k, got=r.get("pred_margin"),
                                 want=want))
    # cross-level: finer tables sum onto coarser ones (vote-count estimands, non-classification tables) ----------
    if est in ("nonparametric", "gaussian"):
        for fine, coarse in (("county_data", "state_data"), ("district_data", "state_data"),
                             ("county_data", "district_data")):
            if fine in tables and coarse in tables:
                ck = ref.table_keys(tables[coarse])
                fk = ref.table_keys(tables[fine])
                if not set(ck) <= set(fk):
                    continue
                cols = [f"pred_{e}" for e in estimands] + [f"results_{e}" for e in estimands]
                if est == "nonparametric":
                    cols += [f"{b}_{a}_{e}" for e in estimands for a in alphas for b in ("lower", "upper")]
                sums = {}
                for r in ref.rows(tables[fine]):
                    k = tuple(r[c] for c in ck)
                    d = sums.setdefault(k, {c: 0.0 for c in cols})
                    for c in cols:
                        d[c] += float(r[c])
                crow = {tuple(r[c] for c in ck): r for r in ref.rows(tables[coarse])}
                cnt["cross_level_pairs"] = cnt.get("cross_level_pairs", 0) + 1
                for k, d in sums.items():
                    r = crow.get(k)
                    if r is None:
                        out.append(V(f"C02/{est}/cross-level/coarse-group-missing", f"{coarse} lacks {k} present in "
                                     f"{fine}", group=k))
                        continue
                    for c in cols:
                        if not ref.close(r[c], d[c], rel=0, abs_=0):
                            out.append(V(f"C02/{est}/cross-level/{fine}-vs-{coarse}", f"{c}: {fine} sums to {d[c]} "
                                         f"but {coarse}{k} has {r[c]}", group=k, column=c))
                            break
                for k in crow:
                    if k not in sums:
                        out.append(V(f"C02/{est}/cross-level/fine-group-missing", f"{fine} has no rows for {k} of "
                                     f"{coarse}", group=k))
    if est == "bootstrap":
        o2, c2 = bootstrap_interval_reference(el, feed, call, res, client, keymap)
        out += o2
        for k_, v_ in c2.items():
            cnt[k_] = cnt.get(k_, 0) + v_
    return out, cnt


def bootstrap_interval_reference(el, feed, call, res, client, keymap, tol=1e-9):
    """Re-compute every aggregate bootstrap interval group by group from the model's stored draws, with plain
    loops for the grouping, and compare with the returned lower/upper columns ("interval sits on the row of the
    group it was computed for")."""
    out, cnt = [], {}
    m = client.model
    rh = client.results_handler
    alphas = call["prediction_intervals"]
    called = set(call.get("lhs_called_contests") or []) | set(call.get("rhs_called_contests") or []) | set(
        call.get("stop_model_call") or [])
    rep = ref.rows(rh.reporting_units)
    non = ref.rows(rh.nonreporting_units)
    une = ref.rows(rh.unexpected_units)
    e1, e2, e3, e4 = (np.asarray(a, dtype=float) for a in (m.errors_B_1, m.errors_B_2, m.errors_B_3, m.errors_B_4))
    wyz = np.asarray(m.weighted_yz_test_pred, dtype=float).reshape(-1)
    wz = np.asarray(m.weighted_z_test_pred, dtype=float).reshape(-1)
    B = e1.shape[1] if e1.ndim == 2 else 0
    for tname, tdf in agg_tables(res).items():
        keys = ref.table_keys(tdf)
        level = tname + ("/district-office" if el.district else "")
        top = keys == ["postal_code"] or keys == ["postal_code", "district"]

        def key_of(u):
            km = keymap.get(u["geographic_unit_fips"])
            return None if km is None else tuple(km[c] for c in keys)

        acc = {}
        for u in rep:
            k = key_of(u)
            d = acc.setdefault(k, dict(z=0.0, yz=0.0, idx=[]))
            w = float(u["baseline_weights"]) * float(u["turnout_factor"])
            d["z"] += w
            d["yz"] += w * float(u["results_normalized_margin"])
        for i, u in enumerate(non):
            k = key_of(u)
            acc.setdefault(k, dict(z=0.0, yz=0.0, idx=[]))["idx"].append(i)
        for u in une:
            if "county_classification" in keys:
                continue
            k = key_of(u)
            if k is None or any(x is None for x in k):
                continue
            d = acc.setdefault(k, dict(z=0.0, yz=0.0, idx=[]))
            d["z"] += float(u["results_weights"])
            d["yz"] += float(u["results_margin"])
        for r in ref.rows(tdf):
            k = tuple(r[c] for c in keys)
            d = acc.get(k)
            if d is None:
                continue
            name = "_".join(str(x) for x in k)
            if top and name in called:
                continue
            idx = d["idx"]
            with np.errstate(all="ignore"):
                if idx:
                    s1, s2, s3, s4 = (a[idx].sum(axis=0) for a in (e1, e2, e3, e4))
                else:
                    s1 = s2 = s3 = s4 = np.zeros(B)
                div1 = np.nan_to_num((d["yz"] + s1) / (d["z"] + s3))
                div2 = np.nan_to_num((d["yz"] + s2) / (d["z"] + s4))
            diff = div1 - div2
            pred = float(r["pred_margin"])
            for a in alphas:
                lq, uq = m._get_quantiles(a)
                q = np.quantile(diff, q=[lq, uq])
                up = max(pred - q[0], pred + 0.001)
                lo = min(pred - q[1], pred - 0.001)
                gl, gu = r.get(f"lower_{a}_margin"), r.get(f"upper_{a}_margin")
                cnt["bootstrap_intervals_recomputed"] = cnt.get("bootstrap_intervals_recomputed", 0) + 1
                if not (ref.close(gl, lo, rel=tol, abs_=1e-9) and ref.close(gu, up, rel=tol, abs_=1e-9)):
                    out.append(V(f"C02/bootstrap/{level}/interval-on-wrong-row", f"{tname}{k} alpha={a}: interval "
                                 f"[{gl},{gu}] but its own units' draws give [{lo},{up}]", group=k, alpha=a))
                    break
    return out, cnt


# ---------------------------------------------------------------------------------------------------------------
# C03


def check_floor(el, feed, call, res, client):
    out, cnt = [], {}
    estimands = call["estimands"]
    alphas = call["prediction_intervals"]
    est = call["pi_method"]
    keymap = ref.unit_key_map(el, feed)
    urows, source, cat_cols = unit_rows(res, client, estimands)
    cat_col = cat_cols[0] if cat_cols else None
    for u in urows:
        u["unit_category"] = u.get(cat_col) if cat_col else None
    for e in estimands:
        cols = [f"pred_{e}"] + [f"{b}_{a}_{e}" for a in alphas for b in ("lower", "upper")]
        for u in urows:
            counted = u[f"results_{e}"]
            final = not (u["unit_category"] == "expected" and u.get("reporting") == 0)
            cnt["unit_rows_checked"] = cnt.get("unit_rows_checked", 0) + 1
            for c in cols:
                v = u[c]
                kind = "pred" if c.startswith("pred") else c.split("_")[0]
                if est == "bootstrap":
                    if final and not ref.close(v, counted, rel=0, abs_=0):
                        out.append(V(f"C03/bootstrap/unit/final-unit-{kind}-differs", f"unit "
                                     f"{u['geographic_unit_fips']} ({u['unit_category']}) {c}={v} != counted "
                                     f"{counted}", unit=u["geographic_unit_fips"]))
                    continue
                if not ref.whole(v):
                    out.append(V(f"C03/{est}/unit/{kind}-not-whole-finite", f"unit {u['geographic_unit_fips']} {c}="
                                 f"{v}", unit=u["geographic_unit_fips"]))
                elif v < counted:
                    out.append(V(f"C03/{est}/unit/{kind}-below-counted", f"unit {u['geographic_unit_fips']} {c}={v} "
                                 f"< counted {counted}", unit=u["geographic_unit_fips"]))
                elif final and v != counted:
                    out.append(V(f"C03/{est}/unit/final-unit-{kind}-differs", f"unit {u['geographic_unit_fips']} "
                                 f"({u['unit_category']}) {c}={v} != counted {counted}",
                                 unit=u["geographic_unit_fips"]))
                elif (not final) and v == counted and counted > 0:
                    cnt[f"floor_binding_unit_{kind}"] = cnt.get(f"floor_binding_unit_{kind}", 0) + 1
    if est == "bootstrap":
        return out, cnt
    fcs, dup = ref.feed_counts(feed)
    for tname, tdf in agg_tables(res).items():
        keys = ref.table_keys(tdf)
        groups, _ = ref.group_units(urows, keymap, keys)
        level = tname
        # the floor is what the FEED has counted for the group (every feed row attributable to it, whether or not the
        # unit made it into the unit table), not only what the table itself lists as counted
        feed_tot = {}
        if "county_classification" not in keys and not dup:
            for f, fc in fcs.items():
                km = keymap.get(f)
                if km is None:
                    continue
                fk = tuple(km[c] for c in keys)
                if any(x is None for x in fk):
                    continue
                d_ = feed_tot.setdefault(fk, {})
                for e in estimands:
                    d_[e] = d_.get(e, 0) + feed_value(fc, e)
        for r in ref.rows(tdf):
            k = tuple(r[c] for c in keys)
            if k in feed_tot:
                cnt["groups_checked_against_feed"] = cnt.get("groups_checked_against_feed", 0) + 1
                for e in estimands:
                    for c in [f"pred_{e}"] + [f"{b}_{a}_{e}" for a in alphas for b in ("lower", "upper")]:
                        v = r.get(c)
                        if v is not None and ref.whole(v) and v < feed_tot[k][e]:
                            kind = "pred" if c.startswith("pred") else c.split("_")[0]
                            out.append(V(f"C03/{est}/{level}/{kind}-below-votes-counted-in-feed", f"{tname}{k} {c}={v} < "
                                         f"{feed_tot[k][e]} votes the feed has counted for this group (the table lists "
                                         f"{r.get('results_' + e)})", group=k))
                            break
            us = groups.get(k)
            if us is None:
                continue
            n_non = sum(1 for u in us if u["unit_category"] == "expected" and u.get("reporting") == 0)
            cnt["groups_checked"] = cnt.get("groups_checked", 0) + 1
            if n_non == 0:
                cnt["groups_without_nonreporting"] = cnt.get("groups_without_nonreporting", 0) + 1
            for e in estimands:
                counted = r[f"results_{e}"]
                cols = [f"pred_{e}"] + [f"{b}_{a}_{e}" for a in alphas for b in ("lower", "upper")]
                for c in cols:
                    v = r[c]
                    kind = "pred" if c.startswith("pred") else c.split("_")[0]
                    if not ref.whole(v):
                        out.append(V(f"C03/{est}/{level}/{kind}-not-whole-finite", f"{tname}{k} {c}={v}", group=k))
                    elif v < counted:
                        out.append(V(f"C03/{est}/{level}/{kind}-below-counted", f"{tname}{k} {c}={v} < counted "
                                     f"{counted}", group=k))
                    elif n_non == 0 and v != counted:
                        out.append(V(f"C03/{est}/{level}/complete-group-{kind}-differs", f"{tname}{k} has no "
                                     f"nonreporting units but {c}={v} != counted {counted}", group=k))
                    elif n_non > 0 and v == counted and kind != "pred" and est == "gaussian":
                        cnt[f"floor_binding_agg_{kind}"] = cnt.get(f"floor_binding_agg_{kind}", 0) + 1
    return out, cnt


def finite(x):
    try:
        return math.isfinite(float(x))
    except (TypeError, ValueError):
        return False
