"""Helpers shared by the table-based checks (C01, C02, C03, ...)."""
from .. import cases, gen, harness


def run_table_case(spec, prop, checker, inputs=None, post=None, fast_sigma=True):
    """Build (or re-load) a full case, run get_estimates, apply `checker`; returns a result dict."""
    if inputs is not None:
        el, feed, call = gen.dematerialise(inputs)
        status = inputs.get("status", {})
    else:
        el, feed, status, call = cases.build(spec["seed"], prop, spec["i"], spec.get("o"))
    sig = cases.signature(el, status, call)
    with harness.patched() as p:
        if call["pi_method"] == "gaussian" and fast_sigma:
            harness.fast_boot_sigma(p)
        res, exc, client = harness.run_estimates(el, feed, call, want_client=True)
    out = dict(violations=[], sig=sig, nontrivial=False, counters={}, sets={})
    cm = harness.client_mod()
    if exc is not None:
        if isinstance(exc, cm.ModelNotEnoughSubunitsException):
            out["counters"]["not_enough_units"] = 1
        else:
            info = harness.exc_info(exc)
            out["counters"]["run_raised"] = 1
            out["sets"]["raised"] = [f"{call['pi_method']}:{info['type']}:{info['where'][-90:]}"]
            out["raised"] = info
        return out, None
    out["counters"]["runs_completed"] = 1
    out["counters"][f"runs_{call['pi_method']}"] = 1
    vs, cnt = checker(el, feed, call, res, client)
    out["violations"] = vs
    for k, v in cnt.items():
        out["counters"][k] = out["counters"].get(k, 0) + v
    ctx = dict(el=el, feed=feed, status=status, call=call, res=res, client=client)
    if post:
        post(out, ctx)
    if vs:
        m = gen.materialise(el, feed, call)
        m["status"] = status
        out["inputs"] = m
    return out, ctx


def sample_of(ctx, extra=None):
    el, call = ctx["el"], ctx["call"]
    s = dict(election=el.meta, office=el.office, geo_type=el.geo_type, n_feed_rows=len(ctx["feed"]), call=call)
    st = {}
    for v in ctx["status"].values():
        st[v] = st.get(v, 0) + 1
    s["feed_status_counts"] = st
    if ctx.get("res"):
        s["tables"] = {k: list(v.shape) for k, v in ctx["res"].items()}
        t = ctx["res"].get("state_data")
        if t is not None:
            s["state_rows"] = gen.jsonable(t.head(2))
    if extra:
        s.update(extra)
    return gen.jsonable(s)
