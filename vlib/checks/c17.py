"""C17 - margin histories interpolate within bounds; irregular histories are discarded."""
import contextlib
import math
import warnings

import numpy as np
import pandas as pd

from .. import gen, harness

PROPERTY = "C17"
LEVEL = "exploration"
RULE = ("random per-unit version histories (1-40 versions; repeated versions, zero-vote prefixes, downward turnout "
        "revisions, impossible batches incl. division by a zero batch, two-party totals shrinking while turnout "
        "grows, recorded percentages unrelated to turnout, final percent in {0, fractional, 99, 100, >100}, integer "
        "and float column dtypes, several units per frame) are passed to the real "
        "VersionedDataHandler.compute_versioned_margin_estimate; a per-unit plain-python reference with true division "
        "decides regular/irregular from the statement and recomputes every row. A second monitor perturbs the "
        "history of units the handler flagged and requires BootstrapElectionModel._extrapolate_unit_margin to return "
        "bit-identical output. Non-trivial: regular history with >=3 distinct turnouts, or an irregular one; "
        "distinct = (class, dtype, #versions bucket, last-percent class)")
ASSUMPTIONS = ["histories whose final turnout is 0 are generated with a final percent of 0 (the re-scaling "
               "turnout/turnout_last is undefined otherwise)",
               "percent 0 is only required to lie in [-1,1]; nearest_observed_vote is not part of the property"]
BATCH = {"quick": 60, "thorough": 400}
BUDGET = {"quick": 100, "thorough": 1500}
MIN_NONTRIVIAL = {"quick": 20, "thorough": 40}
N = {"quick": 4500, "thorough": 200000}
EXTRAP_EVERY = 7


def make_history(rng, kind, as_int):
    n = int(rng.integers(1, 41)) if rng.random() < 0.8 else int(rng.integers(1, 4))
    inc_d, inc_g, inc_o = np.zeros(n), np.zeros(n), np.zeros(n)
    zero_prefix = int(rng.integers(0, max(1, n // 2))) if rng.random() < 0.4 else 0
    share = rng.uniform(0.1, 0.9)
    for i in range(zero_prefix, n):
        if rng.random() < 0.25 and i > 0:
            continue  # repeated version
        step = int(rng.integers(0, 2000))
        s = float(np.clip(share + rng.normal(0, 0.15), 0, 1))
        inc_d[i] = int(round(step * s))
        inc_g[i] = step - inc_d[i]
        inc_o[i] = int(rng.integers(0, 50))
    if n >= 2:
        j = int(rng.integers(1, n))
        x = int(rng.integers(1, 200))
        if kind == "downward":
            inc_d[0] += 2 * x
            inc_d[j], inc_g[j], inc_o[j] = -x, 0, 0
            if rng.random() < 0.5:
                inc_d[j], inc_o[j] = -2 * x, x  # turnout still goes down
        elif kind == "bad_batch":
            inc_d[0] += x
            if rng.random() < 0.5:
                inc_d[j], inc_g[j] = -x, 2 * x  # batch margin -3
            else:
                inc_d[j], inc_g[j], inc_o[j] = -x, x, 2 * x  # two-party total unchanged: division by zero
        elif kind == "shrinking_two_party":
            a, b = int(rng.integers(0, 30)), int(rng.integers(0, 30))
            if a + b == 0:
                a = 1
            inc_d[0] += a
            inc_g[0] += b
            inc_d[j], inc_g[j], inc_o[j] = -a, -b, a + b + int(rng.integers(0, 20))
        elif kind == "to_zero":
            inc_d[0] += 3
            inc_g[0] += 2
            inc_d[-1], inc_g[-1], inc_o[-1] = -inc_d[:-1].sum(), -inc_g[:-1].sum(), -inc_o[:-1].sum()
    dem, gop, oth = np.cumsum(inc_d), np.cumsum(inc_g), np.cumsum(inc_o)
    assert dem.min() >= 0 and gop.min() >= 0 and oth.min() >= 0
    revert = None
    if kind == "revert" and n >= 3:
        # an erroneous upload followed by a return to an EARLIER exact state (non-adjacent identical versions)
        j_ = int(rng.integers(0, n - 2))
        k_ = int(rng.integers(j_ + 2, n))
        dem[k_], gop[k_], oth[k_] = dem[j_], gop[j_], oth[j_]
        revert = (j_, k_)
    turnout = dem + gop + oth
    last_kind = gen.choice(rng, ["99", "100", "frac", "over", "low"])
    pct_last = {"99": 99.0, "100": 100.0, "frac": float(np.round(rng.uniform(1, 99), 1)), "over": 120.0,
                "low": float(rng.integers(1, 10))}[last_kind]
    if turnout[-1] == 0:
        pct_last, last_kind = 0.0, "zero"
    if rng.random() < 0.5:
        pct = np.round(rng.uniform(0, 100, size=n), 1)  # recorded percentages unrelated to turnout
    else:
        pct = np.round(turnout / max(turnout[-1], 1) * pct_last, 1)
    pct[-1] = pct_last
    if revert is not None and revert[1] != n - 1:
        pct[revert[1]] = pct[revert[0]]
    w = dem + gop
    with np.errstate(all="ignore"):
        nm = np.where(w != 0, (dem - gop) / np.where(w == 0, 1, w), 0.0)
    df = pd.DataFrame(dict(results_turnout=turnout, results_dem=dem, results_gop=gop, percent_expected_vote=pct,
                           results_weights=w, results_margin=dem - gop, results_normalized_margin=nm))
    if as_int:
        for c in ("results_turnout", "results_dem", "results_gop", "results_weights", "results_margin"):
            df[c] = df[c].astype("int64")
    if rng.random() < 0.25:
        # the stored share of a version without two-party votes is the 0/0 it was computed as: a missing value
        df.loc[w == 0, "results_normalized_margin"] = np.nan
    return df, last_kind


def reference(h):
    """h: list of dict rows of one unit in order.  Returns dict(regular, reasons, rows{k: (est, corr)}, kmax)."""
    t = [float(r["results_turnout"]) for r in h]
    d = [float(r["results_dem"]) for r in h]
    g = [float(r["results_gop"]) for r in h]
    # a version without two-party votes has no share to speak of: its (possibly missing) stored share counts as 0
    m = [0.0 if _nan(r["results_normalized_margin"]) or (float(r["results_dem"]) + float(r["results_gop"]) == 0 and _nan(
        float(r["results_normalized_margin"]))) else float(r["results_normalized_margin"]) for r in h]
    n = len(h)
    reasons = []
    if any(t[i + 1] < t[i] for i in range(n - 1)):
        reasons.append("non-monotone percent expected vote")
    batch = []
    for i in range(n):
        if i == n - 1:
            batch.append(0.0)
            continue
        dm = (d[i + 1] - d[i]) - (g[i + 1] - g[i])
        dw = (d[i + 1] + g[i + 1]) - (d[i] + g[i])
        if dw == 0:
            batch.append(0.0 if dm == 0 else math.copysign(math.inf, dm))
        else:
            batch.append(dm / dw)
    if any(abs(b) > 1 for b in batch):
        reasons.append("batch_margin")
    if reasons:
        return dict(regular=False, reasons=reasons)
    pct_last = float(h[-1]["percent_expected_vote"])
    p = [((t[i] / t[-1]) if t[-1] != 0 else 0.0) * pct_last for i in range(n)]
    kmax = int(max(p))
    rows = {}
    for k in range(0, kmax + 1):
        idx = -1
        for i in range(n):
            if p[i] <= k:
                idx = i
        if k == 0:
            rows[k] = None
            continue
        if idx == -1:
            est = m[0]
        else:
            est = (m[idx] * p[idx] + batch[idx] * (k - p[idx])) / k
        rows[k] = est
    return dict(regular=True, rows=rows, kmax=kmax, m_last=m[-1], m_first=m[0], p=p, batch=batch, m=m)


def judge_unit(fips, h, out_rows):
    """out_rows: list of dict rows the real function returned for this unit."""
    vs = []
    ref = reference(h)
    if not ref["regular"]:
        bad = [r for r in out_rows if not (_nan(r["est_margin"]) and _nan(r["est_correction"]))]
        et = {r["error_type"] for r in out_rows}
        cls = "+".join(sorted(x.split()[0] for x in ref["reasons"]))
        if bad:
            vs.append(dict(key=f"C17/irregular-history-yields-corrections/{cls}",
                           msg=f"unit {fips}: irregular history ({ref['reasons']}) but {len(bad)} rows carry a "
                               f"margin/correction, error_type={sorted(et)}",
                           witness=dict(history=h[:12], first_bad=bad[:2])))
        elif not et <= set(ref["reasons"]):
            vs.append(dict(key="C17/irregular-history-wrong-error-type", msg=f"unit {fips}: error_type {sorted(et)} "
                           f"but applicable reasons are {ref['reasons']}", witness=dict(history=h[:12])))
        return vs, ref
    ks = [r["percent_expected_vote"] for r in out_rows]
    want_ks = list(range(0, ref["kmax"] + 1))
    if sorted(ks) != want_ks:
        vs.append(dict(key="C17/regular-history-rows", msg=f"unit {fips}: rows for percents {ks[:5]}..{ks[-3:]} "
                       f"(n={len(ks)}) but expected 0..{ref['kmax']}", witness=dict(history=h[:12])))
        return vs, ref
    et = {r["error_type"] for r in out_rows}
    if et != {"none"}:
        cls = "+".join(sorted(str(x).split()[0] for x in et))
        vs.append(dict(key=f"C17/regular-history-discarded/{cls}", msg=f"unit {fips}: regular history but "
                       f"error_type={sorted(et)}", witness=dict(history=h[:12])))
        return vs, ref
    for r in out_rows:
        k = r["percent_expected_vote"]
        est, corr = r["est_margin"], r["est_correction"]
        if _nan(est) or not (-1 - 1e-12 <= est <= 1 + 1e-12):
            vs.append(dict(key="C17/regular-history-margin-out-of-range", msg=f"unit {fips} percent {k}: est_margin="
                           f"{est}", witness=dict(history=h[:12])))
            break
        if _nan(corr) or abs(corr - (ref["m_last"] - est)) > 1e-12:
            vs.append(dict(key="C17/correction-not-final-minus-estimate", msg=f"unit {fips} percent {k}: correction "
                           f"{corr} != {ref['m_last']} - {est}", witness=dict(history=h[:12])))
            break
        want = ref["rows"][k]
        if want is None:
            continue
        if abs(est - want) > 1e-9 * max(1.0, abs(want)):
            first = ref["p"][0] > k
            key = "C17/before-first-observation" if first else "C17/interpolation-differs"
            vs.append(dict(key=key, msg=f"unit {fips} percent {k}: est_margin={est} but reference {want} "
                           f"(p={ref['p'][:6]}, m={ref['m'][:6]}, batch={ref['batch'][:6]})",
                           witness=dict(history=h[:12], percent=k, got=est, want=want)))
            break
    return vs, ref


def _nan(x):
    return x is None or (isinstance(x, float) and math.isnan(x))


KINDS = ["regular", "regular", "downward", "bad_batch", "shrinking_two_party", "to_zero", "revert"]


def cases(tier, seed):
    return [dict(seed=seed, i=i) for i in range(N[tier])]


def build(spec):
    rng = gen.rng_for(spec["seed"], PROPERTY, spec["i"])
    as_int = bool(rng.random() < 0.5)
    n_units = int(rng.integers(1, 9))
    frames, meta = [], {}
    for u in range(n_units):
        kind = gen.choice(rng, KINDS)
        h, last_kind = make_history(rng, kind, as_int)
        fips = f"{10000 + u}"
        h.insert(0, "geographic_unit_fips", fips)
        h.insert(0, "postal_code", "AA")
        h["last_modified"] = np.arange(len(h)) + 100 * u
        frames.append(h)
        meta[fips] = (kind, last_kind)
    df = pd.concat(frames).sort_values("last_modified").reset_index(drop=True)
    df["geographic_unit_fips"] = df["geographic_unit_fips"].astype(str)
    return df, meta, as_int


def run_case(spec, inputs=None):
    harness.client_mod()
    from elexmodel.handlers.data.VersionedData import VersionedDataHandler

    if inputs is not None:
        df = pd.read_json(inputs["frame_json"], orient="split", dtype={"geographic_unit_fips": str})
        df["geographic_unit_fips"] = df["geographic_unit_fips"].astype(str)
        meta = inputs["meta"]
        as_int = inputs["as_int"]
    else:
        df, meta, as_int = build(spec)
    out = dict(violations=[], counters={}, sets={}, nontrivial=False)
    vdh = object.__new__(VersionedDataHandler)
    arg = df.copy(deep=True)
    with np.errstate(all="ignore"):
        import warnings

        with warnings.catch_warnings():
            warnings.simplefilter("ignore")
            try:
                res = vdh.compute_versioned_margin_estimate(data=arg)
            except Exception as e:  # noqa: BLE001
                out["violations"].append(dict(key=f"C17/raised/{type(e).__name__}", msg=f"raised {e!r}", witness={}))
                out["inputs"] = dict(frame_json=df.to_json(orient="split"), meta=meta, as_int=as_int)
                return out
    out["counters"]["frames"] = 1
    by_unit = {}
    for r in res.to_dict(orient="records"):
        by_unit.setdefault(str(r["geographic_unit_fips"]), []).append(r)
    sigs = []
    for fips, h in df.groupby("geographic_unit_fips", sort=False):
        hist = h.to_dict(orient="records")
        vs, ref = judge_unit(fips, hist, by_unit.get(str(fips), []))
        out["violations"] += vs
        out["counters"]["histories"] = out["counters"].get("histories", 0) + 1
        kind, last_kind = meta[str(fips)]
        if ref["regular"]:
            out["counters"]["regular"] = out["counters"].get("regular", 0) + 1
            nt = len({r["results_turnout"] for r in hist}) >= 3
            out["counters"]["rows_compared"] = out["counters"].get("rows_compared", 0) + ref["kmax"] + 1
            if ref["p"][0] >= 1:
                out["counters"]["with_percent_before_first_observation"] = out["counters"].get(
                    "with_percent_before_first_observation", 0) + 1
        else:
            nt = True
            for rs in ref["reasons"]:
                k = "irregular_" + rs.split()[0]
                out["counters"][k] = out["counters"].get(k, 0) + 1
        if nt:
            sigs.append([kind, "int" if as_int else "float", min(len(hist) // 8, 4), last_kind, ref["regular"]])
    out["nontrivial"] = bool(sigs)
    out["sig"] = sigs[0] if sigs else None
    out["sets"]["history_classes"] = sigs
    out["sigs"] = sigs
    # the same histories loaded the way the model loads them: VersionedDataHandler.get_versioned_results() over a
    # stubbed version store, then compute_versioned_margin_estimate() on the handler's own data -----------------
    if spec["i"] % 3 == 1 and not out["violations"]:
        class _Store:
            def __init__(self, frame):
                self.frame = frame

            def get(self, path, sample=2):
                return self.frame.copy()

        raw = df[["postal_code", "geographic_unit_fips", "results_turnout", "results_dem", "results_gop",
                  "percent_expected_vote", "last_modified"]].copy()
        raw = raw.iloc[np.random.default_rng(spec["i"]).permutation(len(raw))].reset_index(drop=True)
        h = object.__new__(VersionedDataHandler)
        h.election_id, h.office_id, h.geographic_unit_type = "2031-01-01_XX_G", "G", "county"
        h.estimands, h.sample, h.tz, h.start_date, h.end_date = ["margin"], 1, "UTC", None, None
        h.s3_client = _Store(raw)
        try:
            with warnings.catch_warnings(), np.errstate(all="ignore"):
                warnings.simplefilter("ignore")
                h.get_versioned_results()
                res2 = h.compute_versioned_margin_estimate()
            by2 = {}
            for r in res2.to_dict(orient="records"):
                by2.setdefault(str(r["geographic_unit_fips"]), []).append(r)
            for fips, hh in df.groupby("geographic_unit_fips", sort=False):
                vs, _ = judge_unit(fips, hh.sort_values("last_modified").to_dict(orient="records"), by2.get(str(fips), []))
                for v in vs:
                    v["key"] = v["key"].replace("C17/", "C17/via-handler/")
                out["violations"] += vs
                out["counters"]["histories_via_handler"] = out["counters"].get("histories_via_handler", 0) + 1
        except Exception as e:  # noqa: BLE001
            out["violations"].append(dict(key=f"C17/via-handler/raised/{type(e).__name__}", msg=f"{type(e).__name__}: "
                                          f"{str(e)[:200]}", witness={}))
    # ... and the way production loads them: every step of the night is one stored VERSION of the results file,
    # fetched by the real S3VersionUtil (real botocore client and transfer threads over a scripted service, as in
    # C19), stamped and ordered by the handler.  The timeline crosses the end of daylight saving time in the
    # handler's zone: the order of the versions is the order of their instants, not of their wall-clock readings.
    if spec["i"] % 9 == 4 and not out["violations"]:
        import datetime as dt

        from . import c19

        rng2 = np.random.default_rng(spec["i"] + 7)
        zone, base = [("America/New_York", dt.datetime(2021, 11, 7, 4, 30, tzinfo=dt.timezone.utc)),
                      ("America/New_York", dt.datetime(2030, 11, 3, 5, 10, tzinfo=dt.timezone.utc)),
                      ("Europe/Berlin", dt.datetime(2029, 10, 28, 0, 20, tzinfo=dt.timezone.utc)),
                      ("UTC", dt.datetime(2030, 11, 5, 23, 0, tzinfo=dt.timezone.utc))][int(rng2.integers(0, 4))]
        per_unit = {str(f): hh.sort_values("last_modified").to_dict(orient="records")
                    for f, hh in df.groupby("geographic_unit_fips", sort=False)}
        n_steps = max(len(v) for v in per_unit.values())
        step_s = int(rng2.choice([300, 600, 1200]))
        key = "r/2031-01-01_XX_G/results/G/county/current.csv"
        versions, bodies = [], {}
        for k in reversed(range(n_steps)):  # listings are newest first
            vid = f"s{k:04d}"
            lines = ["geographic_unit_fips,postal_code,results_dem,results_gop,results_turnout,percent_expected_vote"]
            for f, hist in per_unit.items():
                if k < len(hist):
                    r = hist[k]
                    lines.append(f"{f},AA,{r['results_dem']},{r['results_gop']},{r['results_turnout']},"
                                 f"{r['percent_expected_vote']}")
            body = ("\n".join(lines) + "\n").encode()
            bodies[vid] = body
            versions.append(dict(VersionId=vid, LastModified=base + dt.timedelta(seconds=step_s * k), Size=len(body),
                                 Key=key, IsLatest=(k == n_steps - 1), ETag=f'"{vid}"', StorageClass="STANDARD"))
        svc = c19.Service(versions, bodies, int(rng2.choice([3, 1000])), set(), {}, {})
        h3 = None
        try:
            with warnings.catch_warnings(), np.errstate(all="ignore"):
                warnings.simplefilter("ignore")
                h3 = VersionedDataHandler("2031-01-01_XX_G", "G", "county", estimands=["margin"], sample=1, tzinfo=zone)
                hc = h3.s3_client.s3_client
                hc.list_object_versions, hc.head_object, hc.get_object = (svc.list_object_versions, svc.head_object,
                                                                          svc.get_object)
                h3.get_versioned_results()
                res3 = h3.compute_versioned_margin_estimate()
            by3 = {}
            for r in res3.to_dict(orient="records"):
                by3.setdefault(str(r["geographic_unit_fips"]), []).append(r)
            for f, hist in per_unit.items():
                vs, _ = judge_unit(f, hist, by3.get(str(f), []))
                for v in vs:
                    v["key"] = v["key"].replace("C17/", "C17/via-version-store/")
                    v["msg"] = f"[versions {step_s}s apart from {base.isoformat()} read in zone {zone}] " + v["msg"]
                out["violations"] += vs
                out["counters"]["histories_via_version_store"] = out["counters"].get("histories_via_version_store", 0) + 1
            out["sets"]["version_store_zones"] = [zone]
        except Exception as e:  # noqa: BLE001
            import traceback

            out["violations"].append(dict(key=f"C17/via-version-store/raised/{type(e).__name__}",
                                          msg=f"{type(e).__name__}: {str(e)[:200]}",
                                          witness=dict(tb=traceback.format_exc()[-700:])))
        finally:
            try:
                h3.s3_client.manager.shutdown()
            except Exception:  # noqa: BLE001
                pass
    # second monitor: flagged units cannot contribute to an extrapolation -------------------------------------
    if spec["i"] % EXTRAP_EVERY == 0 and not out["violations"]:
        v2, c2 = extrapolation_monitor(spec, as_int)
        out["violations"] += v2
        for k, v in c2.items():
            out["counters"][k] = out["counters"].get(k, 0) + v
    if out["violations"]:
        out["inputs"] = dict(frame_json=df.to_json(orient="split"), meta=meta, as_int=as_int)
    if spec["i"] % 211 == 0:
        fips0 = str(df.geographic_unit_fips.iloc[0])
        out["sample"] = gen.jsonable(dict(dtype="int" if as_int else "float", units=meta,
                                          history_of_first_unit=df[df.geographic_unit_fips == fips0].head(10),
                                          returned_rows=by_unit.get(fips0, [])[:4]))
    return out


@contextlib.contextmanager
def _pandas2_groupby_apply():
    """DataFrameGroupBy.apply as pandas 2 did it for the one use in _extrapolate_unit_margin: the function receives the
    group's rows INCLUDING the grouping column and the results are concatenated under the group keys."""
    from pandas.core.groupby.generic import DataFrameGroupBy

    orig = DataFrameGroupBy.apply

    def apply2(self, func, *a, **k):
        keys = self.keys
        pieces = {name: func(g, *a, **k) for name, g in self}
        return pd.concat(pieces, names=[keys] if isinstance(keys, str) else list(keys))

    DataFrameGroupBy.apply = apply2
    try:
        yield
    finally:
        DataFrameGroupBy.apply = orig


def extrapolation_monitor(spec, as_int):
    """Real BootstrapElectionModel._extrapolate_unit_margin on a state with >=5 reporting counties of which some
    have irregular histories: replacing the irregular units' histories by other irregular histories must not
    change the returned extrapolation (bit for bit)."""
    from elexmodel.handlers.data.VersionedData import VersionedDataHandler
    from elexmodel.models.BootstrapElectionModel import BootstrapElectionModel

    rng = gen.rng_for(spec["seed"], PROPERTY, spec["i"], salt=1)
    n_rep = int(rng.integers(6, 12))
    n_bad = int(rng.integers(1, 4))
    bad_kind = gen.choice(rng, ["downward", "bad_batch"])

    def mk(variant):
        r2 = gen.rng_for(spec["seed"], PROPERTY, spec["i"], salt=2)
        rb = gen.rng_for(spec["seed"], PROPERTY, spec["i"], salt=100 + variant)
        frames, finals = [], {}
        for u in range(n_rep + 3):
            fips = f"{20000 + u}"
            is_bad = u < n_bad
            if is_bad:
                for _ in range(50):
                    h, _lk = make_history(rb, bad_kind, as_int)
                    if not reference(h.assign(geographic_unit_fips=fips).to_dict(orient="records"))["regular"]:
                        break
                h2, _ = make_history(r2, "regular", as_int)  # keep r2 in step
            else:
                h, _lk = make_history(r2, "regular", as_int)
            rep = u < n_rep
            h = h.copy()
            if rep:
                h.loc[h.index[-1], "percent_expected_vote"] = 100.0
            else:
                h.loc[h.index[-1], "percent_expected_vote"] = float(80 + u % 15)
            h.insert(0, "geographic_unit_fips", fips)
            h.insert(0, "postal_code", "AA")
            h["last_modified"] = pd.Timestamp("2030-11-05") + pd.to_timedelta(np.arange(len(h)) * 60 + u, unit="s")
            finals[fips] = h.iloc[-1].to_dict()
            frames.append(h.iloc[:-1] if len(h) > 1 else h.iloc[:0])
        data = pd.concat(frames).sort_values("last_modified").reset_index(drop=True)
        data["geographic_unit_fips"] = data["geographic_unit_fips"].astype(str)
        cur = pd.DataFrame(list(finals.values()))
        cur["geographic_unit_fips"] = cur["geographic_unit_fips"].astype(str)
        cur["geographic_unit_type"] = "county"
        reporting = cur[cur.percent_expected_vote >= 100].reset_index(drop=True)
        nonreporting = cur[cur.percent_expected_vote < 100].reset_index(drop=True)
        return data, reporting, nonreporting

    outs = []
    flagged = None
    shimmed = False
    for variant in (0, 1, 2):
        # variant 1: the flagged units get other irregular histories; variant 2: the flagged reporting units are not
        # there at all ("can never contribute" => their absence changes nothing either; this also catches a
        # contribution that does not depend on what the irregular history looks like)
        data, rep, non = mk(0 if variant == 2 else variant)
        if variant == 2:
            gone = [f for f in (flagged or []) if f in set(rep.geographic_unit_fips)]
            if not gone or len(rep) - len(gone) < 3:
                continue
            data = data[~data.geographic_unit_fips.isin(gone)].reset_index(drop=True)
            rep = rep[~rep.geographic_unit_fips.isin(gone)].reset_index(drop=True)
        vdh = object.__new__(VersionedDataHandler)
        vdh.data = data
        m = BootstrapElectionModel({"features": ["baseline_normalized_margin"], "min_extrapolating_units": 3},
                                   versioned_data_handler=vdh)
        import warnings

        with warnings.catch_warnings(), np.errstate(all="ignore"):
            warnings.simplefilter("ignore")
            # which units does the handler flag, given the history that the model will assemble?
            allu = pd.concat([rep, non])
            probe = pd.concat([data, allu[data.columns]]).copy()
            flags = object.__new__(VersionedDataHandler).compute_versioned_margin_estimate(data=probe)
            fl = sorted(set(flags[flags.error_type != "none"].geographic_unit_fips))
            if variant == 0:
                flagged = fl
            elif variant == 1 and fl != flagged:
                return [], dict(extrap_skipped_flag_sets_differ=1)
            elif variant == 2 and fl != [f for f in flagged if f not in gone]:
                return [], dict(extrap_skipped_flag_sets_differ=1)
            try:
                pred, std = m._extrapolate_unit_margin(rep.copy(), non.copy())
            except AttributeError as e:
                if "geographic_unit_fips" not in str(e):
                    raise
                # pandas >= 3 removed the grouping column from the frames groupby.apply hands to its function: the
                # extrapolation step as written cannot run in this environment (not a C17 matter).  The real method
                # is therefore run once more with DataFrameGroupBy.apply behaving as in pandas 2 (group frames
                # keep the grouping column, result keyed by group), which is the behaviour the code was written
                # for; the evidence counts these runs separately.
                shimmed = True
                try:
                    with _pandas2_groupby_apply():
                        pred, std = m._extrapolate_unit_margin(rep.copy(), non.copy())
                except AttributeError:
                    return [], dict(extrap_unavailable_pandas3=1)
        outs.append((np.asarray(pred, dtype=float), np.asarray(std, dtype=float)))
    if not flagged:
        return [], dict(extrap_skipped_nothing_flagged=1)
    same = all(a.shape == b.shape and np.array_equal(a, b, equal_nan=True)
               for o in outs[1:] for a, b in zip(outs[0], o))
    cnt = dict(extrap_triples_with_flagged_units_removed=int(len(outs) == 3), extrap_pairs=1, extrap_pairs_with_finite_prediction=int(np.isfinite(outs[0][0]).any()),
               extrap_pairs_under_pandas2_apply_shim=int(shimmed),
               extrap_predictions_finite=int(np.isfinite(outs[0][0]).sum()))
    if not same:
        return [dict(key="C17/flagged-unit-influences-extrapolation", msg=f"extrapolation changed when only the "
                     f"histories of flagged units {flagged} changed or the units were removed: "
                     f"{[o[0].ravel()[:4] for o in outs]}", witness=dict(flagged=flagged))], cnt
    return [], cnt


def finalize(agg):
    c = agg["counters"]
    need = ["regular", "irregular_non-monotone", "irregular_batch_margin", "with_percent_before_first_observation"]
    missing = [k for k in need if not c.get(k)]
    if missing:
        return f"history classes never observed: {missing}", {}
    if not c.get("extrap_pairs_with_finite_prediction") and not c.get("extrap_unavailable_pandas3"):
        return "extrapolation monitor never saw a finite extrapolated prediction", {}
    return None, {}
