"""C03 - counted votes are a floor and reported units are final."""
from .. import tablecheck
from . import common

PROPERTY = "C03"
LEVEL = "exploration"
RULE = ("generated elections biased towards the floors: nonreporting units whose partial count is 1.3-3x what the "
        "model will predict, tight noise (negative conformal corrections), gaussian beta in {0.1,1,3}, feeds with "
        "100% of units reporting (with and without unexpected units); every unit row and every group row of every "
        "returned table is checked with row predicates (>= counted, finite whole numbers, final units = counted, "
        "complete groups zero-width). Non-trivial: completed run in which a floor was binding at >=1 of the five "
        "enforcement sites (unit pred / lower / upper, gaussian aggregate lower / upper) or the feed was complete; "
        "distinct = distinct (signature, binding sites)")
ASSUMPTIONS = ["nothing is required of lower <= pred <= upper for the gaussian estimator (the property does not)",
               "a floor counts as binding when a nonreporting unit's (or incomplete group's) value equals its "
               "positive counted votes"]
BATCH = {"quick": 8, "thorough": 25}
BUDGET = {"quick": 120, "thorough": 1500}
MIN_NONTRIVIAL = {"quick": 15, "thorough": 40}
N = {"quick": 330, "thorough": 10000}
SITES = ["floor_binding_unit_pred", "floor_binding_unit_lower", "floor_binding_unit_upper",
         "floor_binding_agg_lower", "floor_binding_agg_upper"]


def cases(tier, seed):
    out = []
    for i in range(N[tier]):
        m = i % 6
        o = dict(estimator=["nonparametric", "gaussian", "gaussian", "nonparametric", "bootstrap", "gaussian"][m])
        if m in (0, 1, 2):
            o.update(feed_partial_above=[0.3, 0.6, 0.9][i % 3], feed_p_partial=0.9, el_noise_scale=0.02)
        if m == 2:
            o["mp"] = dict(beta=0.1)
        if m == 3:
            o.update(feed_frac_reporting=1.0, feed_n_missing=0)
        if m == 5:
            o.update(feed_partial_above=0.5, feed_p_partial=0.9, mp=dict(beta=3))
        if i % 12 == 5 and o["estimator"] != "bootstrap":
            # a unit whose row has arrived with one of several requested counts still missing: it is passed through
            # (drop policy) with the counts it does have, and they are a floor of its groups like any other
            o.update(null_cells=True, allow_pointer_config=False, n_estimands=int(2 + i % 2))
        if i % 12 in (0, 7) and o["estimator"] != "bootstrap":
            # grouping columns as integers (the unchanged bootstrap estimator cannot take them): district 2 sorts before
            # district 10 as a number, after it as a string
            o.update(int_key=True, district=True, feed_n_unexpected=0, must_aggregates=["district"],
                     el_n_units=int(90 + i % 60))
        out.append(dict(seed=seed, i=i, o=o, polls=(3 if i % 5 == 1 else 0), shared_feed=bool(i % 10 == 1)))
    return out


def run_case(spec, inputs=None):
    def post(out, ctx):
        c = out["counters"]
        binding = [s for s in SITES if c.get(s)]
        complete = not any(v in ("partial", "zero") for v in ctx["status"].values())
        if complete:
            c["complete_feed_runs"] = 1
        out["nontrivial"] = bool(binding or complete)
        out["sig"] = out["sig"] + [binding, complete]
        if spec["i"] % 83 == 0:
            out["sample"] = common.sample_of(ctx, dict(binding_sites=binding, complete_feed=complete))

    out, _ = common.run_table_case(spec, PROPERTY, tablecheck.check_floor, inputs=inputs, post=post)
    return out


def finalize(agg):
    c = agg["counters"]
    missing = [s for s in SITES if not c.get(s)]
    if missing:
        return f"floor never binding at: {missing}", {}
    if not c.get("complete_feed_runs"):
        return "no run with a complete feed", {}
    for est in ("nonparametric", "gaussian", "bootstrap"):
        if c.get(f"runs_{est}", 0) == 0:
            return f"no completed run for estimator {est}", {}
    return None, {}
