#!/usr/bin/env python3
"""Evaluate seeded (property-breaking) changes kept under /verif/seeded/<id>/.

For each seeded/<id>/ (patch.diff, demo script, meta.json):
  1. a scratch worktree of /repo HEAD is created under /tmp, the patch applied;
  2. optionally (--tests) the repository's own test suite is run there (the change must survive it);
  3. the demonstration is run with and without the patch (must fail / pass);
  4. the listed checks (meta.json "checks", default: the property's own check) are run with VERIF_REPO pointing at the
     scratch tree; "caught" = exit 1 with a VIOLATION line;
  5. the worktree is removed.
Results are appended to seeded/RESULTS.json.  Evidence files are NOT touched (checks run with VERIF_EVIDENCE_DIR
pointing into the scratch directory).
"""
import argparse
import json
import os
import shutil
import subprocess
import sys
import time

HERE = os.path.dirname(os.path.dirname(os.path.abspath(__file__)))
PY = "/venv/bin/python"
ENV = dict(APP_ENV="local", DATA_ENV="dev", MODEL_S3_BUCKET="b", MODEL_S3_PATH_ROOT="r", AWS_DEFAULT_REGION="us-east-1",
           AWS_ACCESS_KEY_ID="x", AWS_SECRET_ACCESS_KEY="x", APP_LOG_LEVEL="CRITICAL")


def sh(cmd, **kw):
    return subprocess.run(cmd, stdout=subprocess.PIPE, stderr=subprocess.STDOUT, **kw)


def evaluate(name, tests=False, tier="quick", seed=0, base="seeded"):
    d = os.path.join(HERE, base, name)
    meta = json.load(open(os.path.join(d, "meta.json")))
    wt = f"/tmp/evalseed_{base}_{name}"
    sh(["git", "-C", "/repo", "worktree", "remove", "--force", wt])
    shutil.rmtree(wt, ignore_errors=True)
    r = sh(["git", "-C", "/repo", "worktree", "add", "--detach", "-f", wt, "HEAD"])
    res = dict(name=name, property=meta["property"], at=time.strftime("%Y-%m-%d %H:%M:%S"),
               repo_head=sh(["git", "-C", "/repo", "rev-parse", "--short", "HEAD"]).stdout.decode().strip())
    try:
        demos = [f for f in os.listdir(d) if f.startswith("demo")]
        demo = demos[0] if demos else None
        env = dict(os.environ, PYTHONPATH=os.path.join(wt, "src"), **ENV)
        if demo:
            shutil.copy(os.path.join(d, demo), os.path.join(wt, demo))
            r0 = sh([PY, demo], cwd=wt, env=env, timeout=1800)
            res["demo_exit_without_change"] = r0.returncode
        ap = sh(["git", "-C", wt, "apply", "--whitespace=nowarn", os.path.join(d, "patch.diff")])
        res["patch_applies"] = ap.returncode == 0
        if ap.returncode != 0:
            res["apply_output"] = ap.stdout.decode()[-500:]
            return res
        if demo:
            r1 = sh([PY, demo], cwd=wt, env=env, timeout=1800)
            res["demo_exit_with_change"] = r1.returncode
            res["demo_tail"] = r1.stdout.decode(errors="replace")[-400:]
        if tests:
            for _attempt in range(3):  # tests/handlers/test_combined_data.py::test_get_unexpected_units_county is
                # flaky (about 1 run in 6) on the untouched tree: a failing suite is repeated before it is believed
                t = sh([PY, "-m", "pytest", "-q", "-p", "no:cacheprovider", "-x", "--deselect",
                        "tests/handlers/test_live_data.py::test_sample_overweight", "--deselect",
                        "tests/utils/test_file_utils.py::test_get_directory_path", "tests"], cwd=wt,
                       env=dict(os.environ, PYTHONPATH=os.path.join(wt, "src")), timeout=3600)
                if t.returncode == 0:
                    break
            res["tests_exit"] = t.returncode
            res["tests_tail"] = t.stdout.decode(errors="replace").strip().splitlines()[-1:]
        checks = meta.get("checks") or [meta["property"]]
        res["checks"] = {}
        for c in checks:
            evdir = os.path.join(wt, "_evidence")
            e = dict(os.environ, VERIF_REPO=wt, VERIF_EVIDENCE_DIR=evdir, VERIF_REPLAY_DIR=os.path.join(wt, "_replays"),
                     VERIF_SEED=str(seed))
            t0 = time.time()
            cr = sh([PY, "-m", "vlib.check", c, "--tier", tier], cwd=HERE, env=e, timeout=7200)
            out = cr.stdout.decode(errors="replace")
            keys = sorted({ln.strip().split(" x")[0].replace("violation-key ", "") for ln in out.splitlines()
                           if ln.strip().startswith("violation-key")})
            res["checks"][c] = dict(exit=cr.returncode, caught=(cr.returncode == 1 and "VIOLATION property=" in out),
                                    seconds=round(time.time() - t0, 1), violation_keys=keys[:12],
                                    summary=[ln for ln in out.splitlines() if ln.startswith(c + " ")][:1])
    finally:
        sh(["git", "-C", "/repo", "worktree", "remove", "--force", wt])
        shutil.rmtree(wt, ignore_errors=True)
    return res


def main():
    ap = argparse.ArgumentParser()
    ap.add_argument("names", nargs="*")
    ap.add_argument("--tests", action="store_true")
    ap.add_argument("--tier", default="quick")
    ap.add_argument("--seed", type=int, default=0)
    ap.add_argument("--merge-only", action="store_true")
    ap.add_argument("--dir", default="seeded", help="seeded (sub-agent changes) or mutants (hand-written)")
    a = ap.parse_args()
    names = a.names or sorted(n for n in os.listdir(os.path.join(HERE, a.dir))
                              if os.path.isdir(os.path.join(HERE, a.dir, n)))
    path = os.path.join(HERE, a.dir, "RESULTS.json")
    if not a.merge_only:
        for n in names:
            r = evaluate(n, tests=a.tests, tier=a.tier, seed=a.seed, base=a.dir)
            print(json.dumps(r, indent=1))
            with open(os.path.join(HERE, a.dir, n, "result.json"), "w") as f:  # one file per change: evaluators can
                json.dump(r, f, indent=1, sort_keys=True)                     # run in parallel on disjoint subsets
    allres = {}
    for n in sorted(os.listdir(os.path.join(HERE, a.dir))):
        rp = os.path.join(HERE, a.dir, n, "result.json")
        if os.path.exists(rp):
            allres[n] = json.load(open(rp))
    with open(path, "w") as f:
        json.dump(allres, f, indent=1, sort_keys=True)


if __name__ == "__main__":
    main()
