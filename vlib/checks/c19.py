"""C19 - version retrieval returns exactly the requested window despite paging and faults."""
import datetime as dt
import io
import sys
import threading
import time

import numpy as np

from .. import gen, harness

PROPERTY = "C19"
LEVEL = "fault_enumeration"
RULE = ("scripted storage service behind a REAL botocore client (only list_object_versions / head_object / get_object "
        "instance attributes are replaced), so the real S3VersionUtil, s3transfer.TransferManager and its worker "
        "threads run: histories of 0-60 versions with tied timestamps, page sizes 1..N+1, windows open on either side / "
        "empty / cutting a page / equal to a timestamp, sample 1-5, failing subsets (none, one, all-but-one, random; "
        "failing at HEAD or at GET), per-request delays 0-10 ms with sys.setswitchinterval(1e-6), three time zones. "
        "Every version's CSV carries its own version id, so each returned row identifies its download. Oracle: listing "
        "== versions inside [start, end] in service order, each once; retrieval == one block per sampled non-failing "
        "version stamped with that version's modification instant in the requested zone; empty window -> None (also "
        "through VersionedDataHandler.get_versioned_results). Non-trivial: scenario with >=2 pages and a window that "
        "excludes some version, or with a failing download; distinct = (page layout class, window class, failure "
        "pattern, sample, zone)")
ASSUMPTIONS = ["'all downloads fail' has no promised outcome and is not judged; delete-marker-only pages are not "
               "generated", "the service pages newest-first as S3 does and honours the markers it handed out"]
BATCH = {"quick": 40, "thorough": 250}
BUDGET = {"quick": 150, "thorough": 1500}
MIN_NONTRIVIAL = {"quick": 20, "thorough": 50}
N = {"quick": 1200, "thorough": 30000}
ZONES = ["UTC", "America/New_York", "Asia/Kolkata"]
T0 = dt.datetime(2030, 11, 5, 12, 0, 0, tzinfo=dt.timezone.utc)


def cases(tier, seed):
    return [dict(seed=seed, i=i) for i in range(N[tier])]


class Service:
    def __init__(self, versions, bodies, page_size, failing, fail_at, delays):
        self.versions = versions          # newest first
        self.bodies = bodies
        self.page_size = page_size
        self.failing = failing
        self.fail_at = fail_at
        self.delays = delays
        self.lock = threading.Lock()
        self.events = []
        self.finish_order = []
        self.handed_markers = set()

    def log(self, **ev):
        with self.lock:
            ev["thread"] = threading.get_ident()
            ev["n"] = len(self.events)
            self.events.append(ev)

    def list_object_versions(self, **kw):
        start = 0
        marker = kw.get("VersionIdMarker")
        if marker is not None:
            if marker not in self.handed_markers or kw.get("KeyMarker") is None:
                self.log(op="list", error="unknown-marker", marker=marker)
                raise RuntimeError(f"service: marker {marker} was never handed out")
            start = [v["VersionId"] for v in self.versions].index(marker) + 1
        page = self.versions[start:start + self.page_size]
        truncated = start + self.page_size < len(self.versions)
        resp = {"IsTruncated": truncated, "Name": kw.get("Bucket"), "Prefix": kw.get("Prefix")}
        if page:
            resp["Versions"] = [dict(v) for v in page]
        if truncated:
            resp["NextKeyMarker"] = page[-1]["Key"]
            resp["NextVersionIdMarker"] = page[-1]["VersionId"]
            self.handed_markers.add(page[-1]["VersionId"])
        self.log(op="list", start=start, n=len(page), marker=marker)
        return resp

    def _fault(self, vid, where):
        from botocore.exceptions import ClientError

        if vid in self.failing and self.fail_at[vid] == where:
            self.log(op=where, vid=vid, outcome="fail")
            raise ClientError({"Error": {"Code": "InternalError", "Message": "injected"},
                               "ResponseMetadata": {"HTTPStatusCode": 500}}, where)

    def _requested(self, kw, op):
        """S3 semantics: a request WITHOUT a VersionId addresses the current (newest) version of the key."""
        vid = kw.get("VersionId")
        if vid is None:
            self.log(op=op, vid=None, outcome="no-version-id-requested")
            self.unversioned_requests = getattr(self, "unversioned_requests", 0) + 1
            return self.versions[0]["VersionId"] if self.versions else None
        return vid

    def head_object(self, **kw):
        vid = self._requested(kw, "head")
        time.sleep(self.delays.get(vid, 0) / 2)
        self._fault(vid, "head")
        body = self.bodies[vid]
        self.log(op="head", vid=vid, outcome="ok")
        return {"ContentLength": len(body), "ETag": f'"{vid}"', "LastModified": self._v(vid)["LastModified"]}

    def get_object(self, **kw):
        from botocore.response import StreamingBody

        vid = self._requested(kw, "get")
        time.sleep(self.delays.get(vid, 0))
        self._fault(vid, "get")
        body = self.bodies[vid]
        with self.lock:
            self.finish_order.append(vid)
        self.log(op="get", vid=vid, outcome="ok")
        return {"Body": StreamingBody(io.BytesIO(body), len(body)), "ContentLength": len(body), "ETag": f'"{vid}"',
                "LastModified": self._v(vid)["LastModified"]}

    def _v(self, vid):
        return next(v for v in self.versions if v["VersionId"] == vid)


def build(spec):
    rng = gen.rng_for(spec["seed"], PROPERTY, spec["i"])
    n = int(gen.choice(rng, [0, 1, 2, 3, 5, 8, 13, 20, 35, 60]))
    big = spec["i"] % 40 == 7  # a long election night: hundreds of versions (any internal batching of the queue shows)
    if big:
        n = int(gen.choice(rng, [257, 300, 513, 700, 1100]))
    # timestamps newest first, with ties
    gaps = rng.choice([0, 0, 1, 30, 120, 600], size=n)
    ts, t = [], T0
    for g in gaps:
        t = t - dt.timedelta(seconds=int(g))
        ts.append(t)
    key = "root/2030/results/G/county/current.csv"
    versions, bodies = [], {}
    # the oldest version may date from before versioning was switched on for the bucket: S3 lists it with the id "null"
    null_oldest = bool(n >= 2 and rng.random() < 0.12)
    for k in range(n):
        vid = f"v{n - k:03d}"
        if null_oldest and k == n - 1:
            vid = "null"
        nrows = int(rng.integers(1, 4))
        lines = ["geographic_unit_fips,postal_code,dem,gop,total,percent_expected_vote,vid"]
        for r in range(nrows):
            d, g = int(rng.integers(0, 500)), int(rng.integers(0, 500))
            # (the marker column must survive read_csv: the literal "null" would be read as a missing value)
            lines.append(f"{10000 + r},AA,{d},{g},{d + g + 3},{int(rng.integers(0, 101))},"
                         f"{'marker-of-null' if vid == 'null' else vid}")
        body = ("\n".join(lines) + "\n").encode()
        bodies[vid] = body
        versions.append(dict(VersionId=vid, LastModified=ts[k], Size=len(body), Key=key, IsLatest=(k == 0),
                             ETag=f'"{vid}"', StorageClass="STANDARD"))
    page_size = int(gen.choice(rng, [1, 2, 3, 5, 7, max(1, n), n + 1, 1000]))
    if big:
        page_size = int(gen.choice(rng, [100, 256, 333, 1000]))
    # window
    wkind = gen.choice(rng, ["all", "open-start", "open-end", "inside", "empty-future", "empty-past", "at-timestamp",
                             "cuts-page", "between"])
    start = end = None
    if n:
        newest, oldest = ts[0], ts[-1]
        pick = lambda: ts[int(rng.integers(0, n))]  # noqa: E731
        if wkind == "open-start":
            end = pick()
        elif wkind == "open-end":
            start = pick()
        elif wkind == "inside":
            a, b = pick(), pick()
            start, end = min(a, b), max(a, b)
        elif wkind == "empty-future":
            start, end = newest + dt.timedelta(seconds=5), newest + dt.timedelta(seconds=50)
        elif wkind == "empty-past":
            start, end = oldest - dt.timedelta(seconds=50), oldest - dt.timedelta(seconds=5)
        elif wkind == "at-timestamp":
            start = end = pick()
        elif wkind == "cuts-page":
            j = min(n - 1, page_size * int(rng.integers(0, max(1, n // max(1, page_size)) + 1)) + int(rng.integers(0, 2)))
            start = ts[j] + dt.timedelta(seconds=int(gen.choice(rng, [0, 0, 1])))
        elif wkind == "between":
            j = int(rng.integers(0, n))
            start, end = ts[j] + dt.timedelta(milliseconds=300), ts[j] + dt.timedelta(milliseconds=700)
    else:
        if wkind not in ("all",):
            start = T0 - dt.timedelta(hours=1)
    sample = int(gen.choice(rng, [1, 2, 2, 3, 5]))
    if big:
        sample = int(gen.choice(rng, [1, 2, 3, 5, 6, 7, 11]))
    zone = gen.choice(rng, ZONES)
    fkind = gen.choice(rng, ["none", "none", "one", "all-but-one", "random"])
    return dict(versions=versions, bodies=bodies, page_size=page_size, start=start, end=end, wkind=wkind, sample=sample,
                zone=zone, fkind=fkind, key=key, n=n, big=big), rng


def run_case(spec, inputs=None):
    harness.client_mod()
    from elexmodel.handlers import s3 as s3mod

    sys.setswitchinterval(1e-6)
    sc, rng = build(spec)
    out = dict(violations=[], counters={}, sets={}, nontrivial=False)

    def V(key, msg, **w):
        if len(out["violations"]) < 8:
            w.update(scenario=dict(n=sc["n"], page_size=sc["page_size"], window=sc["wkind"], start=str(sc["start"]),
                                   end=str(sc["end"]), sample=sc["sample"], zone=sc["zone"], failing=sc["fkind"],
                                   timestamps=[str(v["LastModified"]) for v in sc["versions"]][:12]))
            out["violations"].append(dict(key=key, msg=msg, witness=w))

    versions = sc["versions"]
    inside = [v for v in versions if (sc["start"] is None or v["LastModified"] >= sc["start"])
              and (sc["end"] is None or v["LastModified"] <= sc["end"])]
    sampled = inside[::sc["sample"]]
    # failing subset among the sampled ones
    ids = [v["VersionId"] for v in sampled]
    failing = set()
    if ids:
        if sc["fkind"] == "one":
            failing = {ids[int(rng.integers(0, len(ids)))]}
        elif sc["fkind"] == "all-but-one" and len(ids) > 1:
            keep = ids[int(rng.integers(0, len(ids)))]
            failing = set(ids) - {keep}
        elif sc["fkind"] == "random":
            failing = {v for v in ids if rng.random() < 0.3}
    if ids and failing >= set(ids):
        failing = set(list(failing)[1:])  # "all fail" is not judged: keep one alive
    fail_at = {v: ("head" if rng.random() < 0.3 else "get") for v in failing}
    delays = {v["VersionId"]: float(rng.uniform(0, 0.006)) if rng.random() < (0.05 if sc["big"] else 0.7) else 0.0
              for v in versions}
    svc = Service(versions, sc["bodies"], sc["page_size"], failing, fail_at, delays)
    use_handler = spec["i"] % 5 == 0
    # the same instants, expressed in an arbitrary zone (the window is a pair of instants, not of wall-clock times)
    from dateutil import tz as _dtz

    bz = gen.choice(rng, [None, "America/New_York", "Asia/Kolkata", "UTC"])
    b_start = sc["start"].astimezone(_dtz.gettz(bz)) if (sc["start"] is not None and bz) else sc["start"]
    b_end = sc["end"].astimezone(_dtz.gettz(bz)) if (sc["end"] is not None and bz) else sc["end"]
    out["sets"]["bound_zones"] = [str(bz)]
    util = s3mod.S3VersionUtil("bucket", b_start, b_end, sc["zone"])
    cl = util.s3_client
    cl.list_object_versions = svc.list_object_versions
    cl.head_object = svc.head_object
    cl.get_object = svc.get_object
    try:
        # listing ------------------------------------------------------------------------------------------------
        try:
            listed = util.list_versions(sc["key"])
        except Exception as e:  # noqa: BLE001
            V(f"C19/list-raised/{type(e).__name__}", f"list_versions raised {type(e).__name__}: {str(e)[:200]}")
            return out
        out["counters"]["listings"] = 1
        got_ids = [v["VersionId"] for v in listed]
        want_ids = [v["VersionId"] for v in inside]
        if got_ids != want_ids:
            missing = [x for x in want_ids if x not in got_ids]
            extra = [x for x in got_ids if x not in want_ids]
            dup = len(got_ids) != len(set(got_ids))
            kind = "missing" if missing else ("outside-window" if extra else ("duplicated" if dup else "order"))
            V(f"C19/listing/{kind}/{sc['wkind']}", f"list_versions returned {got_ids[:8]}.. ({len(got_ids)}), expected "
              f"{want_ids[:8]}.. ({len(want_ids)}); missing {missing[:4]} extra {extra[:4]}")
        n_list_calls = sum(1 for e in svc.events if e["op"] == "list")
        out["counters"]["list_pages_requested"] = n_list_calls
        # retrieval ----------------------------------------------------------------------------------------------
        svc.events.clear()
        svc.finish_order.clear()
        try:
            if use_handler:
                from elexmodel.handlers.data.VersionedData import VersionedDataHandler

                iso = lambda d: None if d is None else d.isoformat()  # noqa: E731  ISO strings with their offset
                h = VersionedDataHandler("2031-01-01_XX_G", "G", "county", estimands=["margin"], sample=sc["sample"],
                                         tzinfo=sc["zone"], start_date=iso(b_start), end_date=iso(b_end))
                if spec["i"] % 2 == 0:
                    # a second handler for another window / zone is built in the same process before the first one is
                    # used (two offices polled side by side): each must keep its own window
                    decoy = VersionedDataHandler("2031-01-01_XX_G", "G", "county", estimands=["margin"], sample=1,
                                                 tzinfo="Asia/Tokyo", start_date="1999-01-01T00:00:00+00:00",
                                                 end_date="1999-01-02T00:00:00+00:00")
                    out["counters"]["handlers_side_by_side"] = 1
                    try:
                        if decoy.s3_client is not h.s3_client:
                            decoy.s3_client.manager.shutdown()
                    except Exception:  # noqa: BLE001
                        pass
                hc = h.s3_client.s3_client  # the handler's own client (it converted the ISO bounds itself)
                hc.list_object_versions, hc.head_object, hc.get_object = (svc.list_object_versions, svc.head_object,
                                                                          svc.get_object)
                util.manager.shutdown()
                util = h.s3_client
                svc_key_ok = True
                df = h.get_versioned_results()
                out["counters"]["through_handler"] = 1
            else:
                df = util.get(sc["key"], sc["sample"])
        except Exception as e:  # noqa: BLE001
            import traceback

            V(f"C19/get-raised/{type(e).__name__}/{sc['fkind']}", f"get raised {type(e).__name__}: {str(e)[:200]} "
              f"(sampled {ids}, failing {sorted(failing)})", tb=traceback.format_exc()[-600:])
            return out
        out["counters"]["retrievals"] = 1
        alive = [v for v in sampled if v["VersionId"] not in failing]
        if not inside:
            if df is not None:
                V("C19/empty-window-not-none", f"no version in the window but get returned {type(df).__name__}")
            out["counters"]["empty_windows"] = 1
        elif df is None:
            V("C19/none-for-non-empty-window", f"{len(inside)} versions in the window but get returned None")
        else:
            import pandas as pd
            from dateutil import tz as dtz

            blocks = {}
            for r in df.to_dict(orient="records"):
                blocks.setdefault("null" if r["vid"] == "marker-of-null" else r["vid"], []).append(r)
            want = {v["VersionId"]: v for v in alive}
            if set(blocks) != set(want):
                miss = sorted(set(want) - set(blocks))
                extra = sorted(set(blocks) - set(want))
                kind = "skipped-download-present" if set(extra) & failing else ("unsampled-version-present" if extra else
                                                                                "version-missing")
                V(f"C19/retrieval/{kind}/{sc['fkind']}", f"rows of versions {sorted(blocks)[:8]} returned, expected "
                  f"{sorted(want)[:8]} (missing {miss[:4]}, extra {extra[:4]}, failing {sorted(failing)[:4]})")
            for vid, rows in blocks.items():
                v = want.get(vid)
                if v is None:
                    continue
                nrows = sc["bodies"][vid].decode().count("\n") - 1
                if len(rows) != nrows:
                    V("C19/retrieval/block-size", f"version {vid}: {len(rows)} rows returned, its file has {nrows}")
                for r in rows:
                    lm = r["last_modified"]
                    lm = pd.Timestamp(lm)
                    if lm.tzinfo is None or lm != pd.Timestamp(v["LastModified"]):
                        V("C19/retrieval/wrong-timestamp", f"version {vid}: row stamped {lm}, version modified "
                          f"{v['LastModified']}")
                        break
                    off = lm.utcoffset()
                    want_off = v["LastModified"].astimezone(dtz.gettz(sc["zone"])).utcoffset()
                    if off != want_off:
                        V("C19/retrieval/wrong-zone", f"version {vid}: stamped with offset {off}, zone {sc['zone']} has "
                          f"{want_off}")
                        break
            order = tuple(svc.finish_order)
            req = tuple(v["VersionId"] for v in alive)
            out["sets"]["completion_orders"] = [["in-order" if order == req else "reordered", min(len(req), 6)]]
            if order != req:
                out["counters"]["reordered_completions"] = 1
        if getattr(svc, "unversioned_requests", 0):
            V("C19/retrieval/request-without-version-id", f"{svc.unversioned_requests} download request(s) carried no "
              f"VersionId (the service then serves the CURRENT object instead of the listed version)")
        if any(v["VersionId"] == "null" for v in sampled):
            out["counters"]["null_version_id_sampled"] = 1
        threads = {e["thread"] for e in svc.events if e["op"] in ("get", "head")}
        out["counters"]["download_threads_seen"] = len(threads)
        out["counters"]["downloads_failed"] = len(failing)
        if sc["big"]:
            out["counters"]["long_histories"] = 1
            out["sets"]["long_history_shapes"] = [[sc["n"], sc["sample"], sc["page_size"]]]
        pages = -(-sc["n"] // sc["page_size"]) if sc["n"] else 0
        layout = "0" if pages == 0 else ("1" if pages == 1 else ("2-3" if pages <= 3 else "many"))
        out["nontrivial"] = bool((pages >= 2 and len(inside) < sc["n"]) or failing)
        out["sig"] = [layout, sc["wkind"], sc["fkind"] if failing else "none", sc["sample"], sc["zone"]]
        out["sets"]["layouts"] = [[layout, sc["wkind"], sc["fkind"] if failing else "none"]]
        if spec["i"] % 199 == 0:
            out["sample"] = gen.jsonable(dict(n_versions=sc["n"], page_size=sc["page_size"], window=sc["wkind"],
                                              start=str(sc["start"]), end=str(sc["end"]), sample=sc["sample"],
                                              zone=sc["zone"], listed=got_ids[:10], failing=sorted(failing),
                                              events=[{k: v for k, v in e.items() if k != "thread"} for e in svc.events[:10]],
                                              completion_order=list(svc.finish_order)[:10]))
    finally:
        try:
            util.manager.shutdown()
        except Exception:  # noqa: BLE001
            pass
    return out


def finalize(agg):
    c = agg["counters"]
    for k in ("listings", "retrievals", "empty_windows", "downloads_failed", "through_handler"):
        if not c.get(k):
            return f"{k} = 0", {}
    if c.get("download_threads_seen", 0) < 2:
        return "downloads were never observed on more than one thread", {}
    return None, {}
