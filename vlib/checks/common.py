"""Helpers shared by the table-based checks (C01, C02, C03, ...)."""
from .. import cases, gen, harness


def run_table_case(spec, prop, checker, inputs=None, post=None, fast_sigma=True):
    """Build (or re-load) a full case, run get_estimates, apply `checker`; returns a result dict."""
    if inputs is not None:
        el, feed, call = gen.dematerialise(inputs)
        status = inputs.get("status", {})
    else:
        el, feed, status, call = cases.build(spec["seed"], prop, spec["i"], spec.get("o"))
    sig = cases.signature(el, status, call)
    out = dict(violations=[], sig=sig, nontrivial=False, counters={}, sets={})
    polls = int(spec.get("polls") or 0)
    with harness.patched() as p:
        if call["pi_method"] == "gaussian" and fast_sigma:
            harness.fast_boot_sigma(p)
        client = None
        live = None
        if polls >= 2 and inputs is None:
            # election night on ONE client: the same request is repeated while more and more units report; every
            # earlier poll is judged too (a result may not depend on what the client answered before)
            client = harness.client_mod().ModelClient()
            seq = cases.poll_sequence(spec["seed"], prop, spec["i"], el, feed, status, polls)
            live = None
            if spec.get("shared_feed"):
                # the caller keeps ONE feed frame for the whole night and updates its cells in place between polls
                # (whatever the library writes into the frame it is handed would be seen by the next poll)
                live = seq[0].copy(deep=True)
                out["counters"]["shared_feed_histories"] = 1
            for feed_t in seq[:-1]:
                if live is not None:
                    for c in feed_t.columns:
                        live[c] = feed_t[c].to_numpy()
                res_t, exc_t, client = harness.run_estimates(el, live if live is not None else feed_t, call,
                                                             client=client, want_client=True, own_feed=live is not None)
                out["counters"]["earlier_polls"] = out["counters"].get("earlier_polls", 0) + 1
                if exc_t is None:
                    vs_t, _ = checker(el, feed_t, call, res_t, client)
                    for v in vs_t:
                        v["msg"] = "[earlier poll on the same client] " + v["msg"]
                    out["violations"] += vs_t[:5]
        if polls >= 2 and inputs is None and live is not None:
            for c in feed.columns:
                live[c] = feed[c].to_numpy()
            res, exc, client = harness.run_estimates(el, live, call, client=client, want_client=True, own_feed=True)
        else:
            res, exc, client = harness.run_estimates(el, feed, call, client=client, want_client=True)
    cm = harness.client_mod()
    if exc is not None:
        if isinstance(exc, cm.ModelNotEnoughSubunitsException):
            out["counters"]["not_enough_units"] = 1
        else:
            info = harness.exc_info(exc)
            out["counters"]["run_raised"] = 1
            out["sets"]["raised"] = [f"{call['pi_method']}:{info['type']}:{info['where'][-90:]}"]
            out["raised"] = info
        return out, None
    out["counters"]["runs_completed"] = 1
    out["counters"][f"runs_{call['pi_method']}"] = 1
    vs, cnt = checker(el, feed, call, res, client)
    if polls >= 2 and vs:
        for v in vs:
            v["msg"] = f"[poll {polls} of {polls} on the same client] " + v["msg"]
    out["violations"] = out["violations"] + vs
    for k, v in cnt.items():
        out["counters"][k] = out["counters"].get(k, 0) + v
    ctx = dict(el=el, feed=feed, status=status, call=call, res=res, client=client)
    if post:
        post(out, ctx)
    if vs:
        m = gen.materialise(el, feed, call)
        m["status"] = status
        out["inputs"] = m
    return out, ctx


def sample_of(ctx, extra=None):
    el, call = ctx["el"], ctx["call"]
    s = dict(election=el.meta, office=el.office, geo_type=el.geo_type, n_feed_rows=len(ctx["feed"]), call=call)
    st = {}
    for v in ctx["status"].values():
        st[v] = st.get(v, 0) + 1
    s["feed_status_counts"] = st
    if ctx.get("res"):
        s["tables"] = {k: list(v.shape) for k, v in ctx["res"].items()}
        t = ctx["res"].get("state_data")
        if t is not None:
            s["state_rows"] = gen.jsonable(t.head(2))
    if extra:
        s.update(extra)
    return gen.jsonable(s)
