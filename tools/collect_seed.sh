#!/bin/sh
# usage: tools/collect_seed.sh C01 [name]  -- copies patch, demo and meta.json of a finished sub-agent worktree into seeded/<name>/
ID=$1; NAME=${2:-$1}
W=/tmp/seed_$ID
D=/verif/seeded/$NAME
mkdir -p $D
git -C $W diff > $D/patch.diff
cp $W/demo_$ID.py $D/ 2>/dev/null || cp $W/demo*.py $D/
cp $W/meta.json $D/meta.json
wc -l $D/patch.diff | cat; ls $D
