#!/usr/bin/env python3
"""Regenerates /verif/MANIFEST.json from the table below (kept in one place so it always validates)."""
import json
import os

HERE = os.path.dirname(os.path.dirname(os.path.abspath(__file__)))
PY = "/venv/bin/python"

CHECKS = {
    "C01": dict(
        category="exploration",
        technique="runtime monitoring: reference-model monitor (loop-and-dict re-aggregation of the feed) over real get_estimates runs",
        text="Every table returned by real get_estimates runs on generated elections is compared with an independent "
             "loop-and-dict aggregation of the live feed (unit rows against the feed itself, group rows against the "
             "units attributable to them). Holds on the executions observed, across all three estimators, both "
             "policies, district and statewide offices and random aggregate lists; says nothing about input classes "
             "the generator does not produce.",
        note="Trusted: the reference (vlib/reference.py, vlib/tablecheck.py), the id rule for unexpected units as "
             "documented in CombinedData, pandas/numpy. Runs that raise are counted, not judged (C11/C14 judge them).",
        ref="DESIGN.md section 6 C01",
    ),
}

NOT_YET = {}


def main():
    props = [json.loads(l) for l in open(os.path.join(HERE, "properties.jsonl"))]
    checks = []
    na = []
    for p in props:
        pid = p["id"]
        c = CHECKS.get(pid)
        if c is None:
            na.append(dict(property_id=pid, reason=NOT_YET.get(pid, "check under construction in this session; not "
                                                                    "claimed until it runs silently on the unchanged tree")))
            continue
        checks.append(dict(
            property_id=pid,
            quick_cmd=f"{PY} -m vlib.check {pid} --tier quick",
            thorough_cmd=f"{PY} -m vlib.check {pid} --tier thorough",
            evidence_file=f"/verif/evidence/{pid}.json",
            replay_cmd_template=f"{PY} -m vlib.check {pid} --replay {{path}}",
            engine="vlib",
            level_claimed=dict(category=c["category"], text=c["text"], design_ref=c["ref"]),
            level_note=c["note"],
            technique=c["technique"],
        ))
    m = dict(
        version=1,
        setup_cmd="true",
        hooks=dict(
            guard="ELEXMODEL_VERIF",
            enable="no source hooks: monitors are attached from the harness process (class-attribute wrappers, "
                   "sys.monitoring local probes, audit hooks, fake storage clients); ELEXMODEL_VERIF=1 is set by "
                   "vlib/env.py for the worker processes only",
            baseline_off_cmd="cd /repo && /venv/bin/python -m pytest -ra -q -p no:cacheprovider --timeout=900 "
                             "--continue-on-collection-errors",
            source_commits=[],
            add_only=True,
        ),
        engines=[dict(name="vlib", path="/verif/vlib", serves_properties=sorted(CHECKS),
                      kind_free_text="python harness: generators, wrappers/probes on the real classes, reference "
                                     "models, trace checkers, fault injection, sharded over worker subprocesses")],
        checks=checks,
        not_applicable=na,
        notes="All checks: cwd=/verif, VERIF_SEED / VERIF_TIER honoured, evidence rewritten on every run, exit 0 held / "
              "1 VIOLATION / 2 INCONCLUSIVE. Known findings: /verif/KNOWN_FINDINGS.json.",
    )
    with open(os.path.join(HERE, "MANIFEST.json"), "w") as f:
        json.dump(m, f, indent=1)
    try:
        import jsonschema
        jsonschema.validate(m, json.load(open("/root/.vp/MANIFEST.schema.json")))
        print("MANIFEST.json valid;", len(checks), "checks,", len(na), "not claimed")
    except ImportError:
        print("written (jsonschema not available)")


if __name__ == "__main__":
    main()
