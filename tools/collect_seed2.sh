#!/bin/sh
ID=$1; W=/tmp/seed2_$ID; D=/verif/seeded/${ID}b
mkdir -p $D
git -C $W diff -- src > $D/patch.diff
cp $W/demo_$ID.py $D/ 2>/dev/null || cp $W/demo*.py $D/
cp $W/meta.json $D/meta.json
wc -l < $D/patch.diff
