"""C09 - which units feed the model follows the documented eligibility rules exactly."""
import math

import numpy as np

from .. import cases as cases_mod
from .. import gen, harness
from .. import reference as ref

PROPERTY = "C09"
LEVEL = "exploration"
RULE = ("boundary-heavy generated feeds (percent exactly at / one off the threshold, turnout factors solved to equal a "
        "limit exactly in floating point, units that are blocklisted AND zero-baseline AND strange, state blocklists, "
        "zero counted votes, zero two-party votes with non-zero turnout, units missing from the feed under both "
        "policies, unexpected units, outlier models on with > 20 reporting units) are passed through the real "
        "get_estimates up to CombinedDataHandler.get_units (a wrapper records arguments and the three returned frames "
        "and then stops the run); a plain-python classifier derives each unit's class from (baseline row, feed row, "
        "parameters) with the documented precedence and the three frames must partition exactly the classified units; "
        "derived columns are recomputed row by row. Non-trivial: case with >=1 unit exactly on a boundary and >=1 "
        "unit with two applicable reasons; distinct = (estimand kind, policy, threshold, limits, outlier models, "
        "classes present)")
ASSUMPTIONS = ["which units an enabled outlier model flags is taken from the recorded return value of "
               "_fit_outlier_detection_model (a regression the property does not specify); only when it may run, "
               "precedence and bookkeeping are checked"]
BATCH = {"quick": 60, "thorough": 400}
BUDGET = {"quick": 120, "thorough": 1500}
MIN_NONTRIVIAL = {"quick": 20, "thorough": 50}
N = {"quick": 3000, "thorough": 120000}


class _Stop(Exception):
    pass


def cases(tier, seed):
    return [dict(seed=seed, i=i) for i in range(N[tier])]


def build(spec):
    i = spec["i"]
    rng = gen.rng_for(spec["seed"], PROPERTY, i, salt=4)
    margin = bool(i % 2)
    thr = gen.choice(rng, [100, 90, 50, 0.5, 75])
    lims = gen.choice(rng, [(0.5, 2.0), (0.5, 2.0), (0.6, 1.5), (0.0, 1e9), (0.25, 4.0)])
    o = dict(estimator="bootstrap" if margin else gen.choice(rng, ["nonparametric", "gaussian"]),
             el_n_units=int(gen.choice(rng, [15, 30, 60, 120])), el_n_zero_baseline=int(gen.choice(rng, [0, 1, 3])),
             threshold=thr, feed_p_strange=0.08, feed_n_missing=int(gen.choice(rng, [0, 1, 3])),
             feed_n_unexpected=int(gen.choice(rng, [0, 1, 3])), el_float_baseline=bool(rng.random() < 0.5),
             feed_unexpected_kinds=["known_county", "unknown_county", "unknown_district", "no_baseline_state"],
             mp=dict(turnout_factor_lower=lims[0], turnout_factor_upper=lims[1]))
    el, feed, status, call = cases_mod.build(spec["seed"], PROPERTY, i, o)
    mp = call["model_parameters"]
    mp["turnout_factor_lower"], mp["turnout_factor_upper"] = lims
    if rng.random() < 0.5:
        mp["fit_turnout_outlier_model"] = bool(rng.random() < 0.7)
        mp["fit_margin_outlier_model"] = bool(rng.random() < 0.7)
    else:
        mp.pop("fit_turnout_outlier_model", None)
        mp.pop("fit_margin_outlier_model", None)
    # boundary surgery on the feed ----------------------------------------------------------------------------
    base = el.pre.set_index("geographic_unit_fips")
    on_boundary = 0
    idx = list(rng.permutation(len(feed)))
    n_edit = max(2, len(feed) // 6)
    for j in idx[:n_edit]:
        f = feed.loc[j, "geographic_unit_fips"]
        if f not in base.index:
            continue
        b = base.loc[f]
        mode = int(rng.integers(0, 7))
        if mode == 0:
            feed.loc[j, "percent_expected_vote"] = float(thr)
            on_boundary += 1
        elif mode == 1:
            feed.loc[j, "percent_expected_vote"] = float(thr) - (1 if thr >= 1 else 0.25)
        elif mode in (2, 3):
            # turnout factor exactly at a limit: weights = limit * baseline weights, using a fraction p/q
            lim = lims[0] if mode == 2 else lims[1]
            frac = {0.5: (1, 2), 2.0: (2, 1), 0.6: (3, 5), 1.5: (3, 2), 0.25: (1, 4), 4.0: (4, 1)}.get(lim)
            if frac is None:
                continue
            bw = (b.baseline_dem + b.baseline_gop) if margin else b.baseline_turnout
            if bw <= 0 or (bw * frac[0]) % frac[1] != 0:
                continue
            target = int(bw * frac[0] // frac[1])
            feed.loc[j, "percent_expected_vote"] = float(max(thr, 100))
            if margin:
                d = target // 2
                feed.loc[j, ["results_dem", "results_gop", "results_turnout"]] = [d, target - d, target + 3]
            else:
                feed.loc[j, ["results_turnout", "results_dem", "results_gop"]] = [target, target // 3, target // 3]
            on_boundary += 1
        elif mode == 4:
            feed.loc[j, ["results_turnout", "results_dem", "results_gop"]] = [0, 0, 0]
            feed.loc[j, "percent_expected_vote"] = float(max(thr, 100))
        elif mode == 5:
            feed.loc[j, ["results_dem", "results_gop"]] = [0, 0]  # zero two-party votes, turnout untouched
            feed.loc[j, "percent_expected_vote"] = float(max(thr, 100))
        elif mode == 6:
            feed.loc[j, ["results_turnout", "results_dem", "results_gop"]] = [int(3 * b.baseline_turnout) + 1,
                                                                             int(2 * b.baseline_dem), int(b.baseline_gop)]
            feed.loc[j, "percent_expected_vote"] = float(max(thr, 100))
    # a row that has arrived with one requested count still missing (null cell): under the drop policy its baseline row
    # is dropped from the join, so the unit is "in the feed but not in the (possibly dropped) baseline join" = unexpected
    if not margin and call["handle_unreporting"] == "drop" and i % 3 == 0 and len(idx) > n_edit \
            and not call.get("feed_as_lists"):
        j = idx[n_edit]
        f = str(feed.loc[j, "geographic_unit_fips"])
        if f in base.index:
            cols = [f"results_{e}" for e in call["estimands"] if f"results_{e}" in feed.columns]
            c = cols[int(i // 3) % len(cols)]
            feed[c] = feed[c].astype(float)
            feed.loc[j, c] = float("nan")
            el.meta["null_cell_units"] = [f]
    # overlapping reasons: blocklist zero-baseline and strange units
    zb = list(el.pre[el.pre.baseline_turnout == 0].geographic_unit_fips)
    bl = list(mp.get("unit_blocklist", []))
    if zb and rng.random() < 0.6:
        bl.append(zb[0])
    if rng.random() < 0.5:
        bl.append(str(feed.loc[idx[0], "geographic_unit_fips"]))
    if bl:
        mp["unit_blocklist"] = bl
    if rng.random() < 0.1:
        mp["postal_code_blocklist"] = [str(el.pre.postal_code.iloc[0])]
    return el, feed, status, call, on_boundary


def classify(el, feed, call, outlier_flags):
    """Plain-python reference. Returns dict fips -> (frame, category), frame in {rep, non, out} or None (dropped)."""
    mp = call["model_parameters"]
    thr = call["percent_reporting_threshold"]
    lo, hi = mp.get("turnout_factor_lower", 0.5), mp.get("turnout_factor_upper", 2.0)
    ubl, sbl = set(mp.get("unit_blocklist", [])), set(mp.get("postal_code_blocklist", []))
    margin = "margin" in call["estimands"]
    policy = call["handle_unreporting"]
    fr = {}
    for r in ref.rows(feed):
        fr[(r["postal_code"], r["geographic_unit_fips"])] = r
    cls, reasons2 = {}, 0
    base_ids = set()
    cand = []  # reporting candidates (for the outlier-model precondition)
    for b in ref.rows(el.pre):
        f = b["geographic_unit_fips"]
        base_ids.add(f)
        r = fr.get((b["postal_code"], f))
        if r is not None and policy == "drop" and f in el.meta.get("null_cell_units", ()):
            cls[f] = (None, "dropped")  # baseline row dropped (null count); the feed row is classified below
            continue
        if r is None:
            if policy == "drop":
                cls[f] = (None, "dropped")
                continue
            pct, t, d, g = 0.0, 0.0, 0.0, 0.0
        else:
            pct, t, d, g = r["percent_expected_vote"], r["results_turnout"], r["results_dem"], r["results_gop"]
        bw = (b["baseline_dem"] + b["baseline_gop"]) if margin else b["baseline_turnout"]
        rw = (d + g) if margin else t
        if bw == 0:
            tf = 0.0
        else:
            tf = float(np.float64(rw) / np.float64(bw))
            if not math.isfinite(tf):
                tf = 0.0
        reporting = pct >= thr
        why = []
        if f in ubl or b["postal_code"] in sbl:
            why.append("non-modeled: blocklisted")
        if abs(bw) <= 1e-8:
            why.append("non-modeled: zero baseline")
        if reporting and (tf <= lo or tf >= hi):
            why.append("non-modeled: strange turnout factor")
        if reporting:
            if not why or why == ["non-modeled: strange turnout factor"]:
                cand.append(f)  # the units an enabled outlier model is fit on: not blocklisted, not zero baseline
            for name, flagged in outlier_flags:
                if f in flagged:
                    why.append(name)
        if len(why) >= 2:
            reasons2 += 1
        if why:
            cls[f] = ("out", why[0])
        elif reporting:
            cls[f] = ("rep", "expected")
        else:
            cls[f] = ("non", "expected")
    dropped = {f for f, v in cls.items() if v[0] is None}
    for (pc, f), r in fr.items():
        if f in base_ids and f not in dropped:
            continue
        if f in base_ids and f in dropped:
            # in the baseline under another state code: the baseline row was dropped, the feed row is unexpected
            cls[f] = ("out", "unexpected")
            continue
        cls[f] = ("out", "unexpected")
    return cls, cand, reasons2


def run_case(spec, inputs=None):
    harness.client_mod()
    from elexmodel.handlers.data.CombinedData import CombinedDataHandler

    if inputs is not None:
        el, feed, call = gen.dematerialise(inputs)
        on_boundary = inputs.get("on_boundary", 0)
    else:
        el, feed, status, call, on_boundary = build(spec)
    out = dict(violations=[], counters={}, sets={}, nontrivial=False)
    rec = dict(outlier=[])

    def V(key, msg, **w):
        out["violations"].append(dict(key=key, msg=msg, witness=w))

    with harness.patched() as p:
        def after_units(tok, args, kwargs, res, exc):
            if exc is None:
                rec["units"] = [x.copy() for x in res]
                rec["args"] = args[1:]
                raise _Stop()

        def after_outlier(tok, args, kwargs, res, exc):
            if exc is None:
                rec["outlier"].append((args[2], int(args[1].shape[0]), set(res["geographic_unit_fips"])))

        p.wrap(CombinedDataHandler, "get_units", after=after_units)
        p.wrap(CombinedDataHandler, "_fit_outlier_detection_model", after=after_outlier)
        res, exc = harness.run_estimates(el, feed, call)
    if not isinstance(exc, _Stop):
        if exc is None:
            out["inconclusive"] = "get_units wrapper not reached"
        else:
            info = harness.exc_info(exc)
            V(f"C09/get-units-raised/{info['type']}", f"{info['type']}: {info['msg']} at {info['where'][-80:]}", exc=info)
            out["inputs"] = gen.materialise(el, feed, call)
        return out
    out["counters"]["get_units_calls"] = 1
    rep_f, non_f, out_f = rec["units"]
    mp = call["model_parameters"]
    names = {"turnout_factor": "non-modeled: strange turnout factor modeled",
             "results_normalized_margin": "non-modeled: strange margin change modeled"}
    flags = [(names[v], fl) for v, n, fl in rec["outlier"]]
    cls, cand, reasons2 = classify(el, feed, call, flags)
    # outlier-model precondition -----------------------------------------------------------------------------
    margin = "margin" in call["estimands"]
    # candidates: baseline units at/above the threshold that are neither blocklisted nor zero-baseline
    want_calls = []
    n_c = len(cand)
    if mp.get("fit_turnout_outlier_model", True) and n_c > 20:
        want_calls.append("turnout_factor")
    if margin and mp.get("fit_margin_outlier_model", True) and n_c > 20:
        want_calls.append("results_normalized_margin")
    got_calls = [v for v, n, fl in rec["outlier"]]
    # the minimum size (20) at which an enabled outlier model actually runs is an implementation detail the
    # property does not fix: a disabled model must never run (violation), the size rule is only counted
    for v in got_calls:
        enabled = mp.get("fit_turnout_outlier_model", True) if v == "turnout_factor" else (
            margin and mp.get("fit_margin_outlier_model", True))
        if not enabled:
            V("C09/disabled-outlier-model-ran", f"outlier model on {v} ran although it is disabled ({mp})")
    if got_calls != want_calls:
        out["counters"]["outlier_size_rule_differs"] = 1
    out["counters"]["outlier_model_calls"] = len(got_calls)
    # partition ------------------------------------------------------------------------------------------------
    got = {}
    for name, frame in (("rep", rep_f), ("non", non_f), ("out", out_f)):
        for r in ref.rows(frame):
            got.setdefault(r["geographic_unit_fips"], []).append((name, r.get("unit_category"), r))
    for f, (frame, cat) in cls.items():
        g = got.get(f, [])
        if frame is None:
            if g:
                V("C09/dropped-unit-present", f"unit {f} missing from the feed (policy drop) appears as {g[0][:2]}")
            continue
        if len(g) != 1:
            V("C09/unit-count" + ("/absent" if not g else "/duplicated"), f"unit {f} ({frame},{cat}) appears "
              f"{len(g)} times: {[x[:2] for x in g]}", unit=f)
            continue
        gf, gc, row = g[0]
        if gf != frame or gc != cat:
            V(f"C09/misclassified/{cat}->{gc}", f"unit {f}: reference says ({frame}, {cat}) but get_units put it in "
              f"({gf}, {gc}); row pct={row.get('percent_expected_vote')} tf={row.get('turnout_factor')}", unit=f,
              row={k: row.get(k) for k in ("percent_expected_vote", "turnout_factor", "baseline_weights",
                                           "results_weights")})
        want_rep = 1 if frame == "rep" else 0
        if row.get("reporting") != want_rep:
            V("C09/reporting-flag", f"unit {f} in frame {gf} has reporting={row.get('reporting')}", unit=f)
    for f in got:
        if f not in cls:
            V("C09/invented-unit", f"unit {f} returned but neither in baseline nor feed", unit=f)
    # derived columns ------------------------------------------------------------------------------------------
    fc, _ = ref.feed_counts(feed)
    base = {r["geographic_unit_fips"]: r for r in ref.rows(el.pre)}
    for f, lst in got.items():
        if f in el.meta.get("null_cell_units", ()):
            out["counters"]["null_cell_units_classified"] = out["counters"].get("null_cell_units_classified", 0) + 1
            continue  # the derived columns of a unit with a missing count are not part of the statement
        for gf, gc, row in lst:
            c = fc.get(f)
            if c is None:
                c = dict(turnout=0, dem=0, gop=0, margin=0, two_party=0)
            if margin:
                nm = (c["margin"] / c["two_party"]) if c["two_party"] else 0.0
                for col, want in (("results_margin", c["margin"]), ("results_weights", c["two_party"]),
                                  ("results_normalized_margin", nm)):
                    v = row.get(col)
                    if v is None or not ref.close(v, want, rel=1e-12, abs_=1e-12):
                        V(f"C09/derived/{col}", f"unit {f}: {col}={v} but definition gives {want}", unit=f)
            if f in base and gf != "x":
                b = base[f]
                bw = (b["baseline_dem"] + b["baseline_gop"]) if margin else b["baseline_turnout"]
                rw = c["two_party"] if margin else c["turnout"]
                want = (rw / bw) if bw else 0.0
                v = row.get("turnout_factor")
                if v is None or not math.isfinite(float(v)) or not ref.close(v, want, rel=1e-12, abs_=1e-12):
                    V("C09/derived/turnout_factor", f"unit {f}: turnout_factor={v} but definition gives {want}", unit=f)
            for col in ("turnout_factor", "results_normalized_margin", "results_margin", "results_weights"):
                v = row.get(col)
                if col in row and (v is None or (isinstance(v, float) and not math.isfinite(v))):
                    if f in base:
                        V(f"C09/non-finite/{col}", f"unit {f} ({gc}): {col}={v}", unit=f)
    cats = sorted({c for _, c in cls.values()})
    out["counters"]["units_classified"] = len(cls)
    out["counters"]["units_with_two_reasons"] = reasons2
    out["counters"]["units_on_boundary"] = on_boundary
    out["sets"]["categories"] = cats
    out["nontrivial"] = bool(on_boundary and reasons2)
    out["sig"] = [margin, call["handle_unreporting"], call["percent_reporting_threshold"],
                  mp.get("turnout_factor_lower"), mp.get("turnout_factor_upper"), len(got_calls), cats]
    if out["violations"]:
        m = gen.materialise(el, feed, call)
        m["on_boundary"] = on_boundary
        out["inputs"] = m
        out["violations"] = out["violations"][:12]
    if spec["i"] % 499 == 0:
        out["sample"] = gen.jsonable(dict(election=el.meta, call=call, classes={c: sum(1 for v in cls.values() if v[1] == c)
                                                                                 for c in cats},
                                          on_boundary=on_boundary, two_reasons=reasons2, outlier_calls=got_calls))
    return out


def finalize(agg):
    c = agg["counters"]
    if not c.get("outlier_model_calls"):
        return "outlier models never ran", {}
    if not c.get("units_on_boundary") or not c.get("units_with_two_reasons"):
        return "no boundary / overlapping-reason unit generated", {}
    need = {"expected", "unexpected", "non-modeled: blocklisted", "non-modeled: zero baseline",
            "non-modeled: strange turnout factor", "non-modeled: strange turnout factor modeled",
            "non-modeled: strange margin change modeled", "dropped"}
    seen = set(agg["sets"].get("categories", ()))
    if not need <= seen:
        return f"categories never observed: {sorted(need - seen)}", {}
    return None, {}
