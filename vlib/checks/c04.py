"""C04 - nonparametric intervals are conformally calibrated."""
import sys

import numpy as np

from .. import cases as cases_mod
from .. import gen, harness

PROPERTY = "C04"
LEVEL = "exploration"
RULE = ("clause 1 (deterministic): during real nonparametric get_estimates runs (all generator classes, robust on and "
        "off, 1-3 levels, 1-3 estimands) wrappers copy the calibration frame and unadjusted bounds, a sys.monitoring "
        "PY_RETURN probe reads the local `correction`; an independent reference computes the smallest score whose "
        "baseline-weighted share exceeds alpha(1+1/n_cal) (robust: max with the unweighted quantile) and the "
        "published unit bounds must equal round(max((bound -/+ c) w + w, counted)) exactly. clause 2 (statistical): "
        "i.i.d. equal-baseline elections with n_reporting in [min, min+40]; one random not-yet-reporting unit per "
        "election is scored covered iff its true count lies in its interval; violated iff the exact binomial tail "
        "P(Bin(K, alpha) <= hits) < 1e-9 per (alpha, noise, robust) cell. Non-trivial: interval computation with "
        "ties among scores, a negative correction or one weight > 1/2, or a coverage trial; distinct = (clause, "
        "alpha, robust, noise, feature set, calibration-set class)")
ASSUMPTIONS = ["clause 2 is asserted only for exchangeable (i.i.d., equal-baseline) elections as the statement does",
               "false-alarm probability of the coverage test on correct code <= 1e-9 per cell (split-conformal "
               "guarantee; rounding to whole votes is conservative)"]
BATCH = {"quick": 12, "thorough": 40}
BUDGET = {"quick": 150, "thorough": 1500}
MIN_NONTRIVIAL = {"quick": 15, "thorough": 40}
N1 = {"quick": 200, "thorough": 6000}
CELLS = {"quick": [(0.9, "gauss", False), (0.7, "t2", True)],
         "thorough": [(a, nz, rb) for a in (0.5, 0.7, 0.9, 0.95) for nz in ("gauss", "t2", "xhetero") for rb in (False, True)]}
K = {"quick": 900, "thorough": 12000}
PER_SPEC = 30
TOOL_ID = 3


N_DIRECT = {"quick": 60, "thorough": 1500}
DIRECT_PER_SPEC = 60


def cases(tier, seed):
    out = [dict(part="det", seed=seed, i=i) for i in range(N1[tier])]
    out += [dict(part="direct", seed=seed, i=500000 + i) for i in range(N_DIRECT[tier])]
    for ci, (a, nz, rb) in enumerate(CELLS[tier]):
        for j in range(K[tier] // PER_SPEC):
            out.append(dict(part="cov", seed=seed, i=100000 + ci * 1000 + j, alpha=a, noise=nz, robust=rb))
    return out


# ---------------------------------------------------------------------------------------------------------------
# probes


class Probes:
    def __init__(self):
        self.calls = []      # one dict per get_unit_prediction_intervals call
        self._cur = None
        self.probe_hits = 0

    def install(self, p):
        harness.client_mod()
        from elexmodel.models.ConformalElectionModel import ConformalElectionModel
        from elexmodel.models.NonparametricElectionModel import NonparametricElectionModel

        pr = self
        orig_b = ConformalElectionModel.get_unit_prediction_interval_bounds
        orig_i = NonparametricElectionModel.get_unit_prediction_intervals

        def bounds(self_, reporting_units, nonreporting_units, conf_frac, alpha, estimand):
            pr._fit_rows = []
            pr._preds = []
            pr._in_bounds = True
            try:
                r = orig_b(self_, reporting_units, nonreporting_units, conf_frac, alpha, estimand)
            finally:
                pr._in_bounds = False
            if pr._cur is not None:
                cal_ = r.conformalization
                rc, lc = f"results_{estimand}", f"last_election_results_{estimand}"
                if rc in cal_.columns and lc in cal_.columns:
                    # the held-out units' ACTUAL relative change, recomputed from their counts (not read from the
                    # residual column the model was handed)
                    pr._cur["cal_actual"] = ((cal_[rc].to_numpy(dtype=float) - cal_[lc].to_numpy(dtype=float))
                                             / cal_[lc].to_numpy(dtype=float))
                pr._cur["bound_predictions"] = [a for a in pr._preds if a.shape[0] == cal_.shape[0]]
                pr._cur["fit_rows"] = list(pr._fit_rows)
                pr._cur["n_rep_bounds"] = int(reporting_units.shape[0])
                if "geographic_unit_fips" in r.conformalization.columns:
                    pr._cur["cal_ids"] = r.conformalization["geographic_unit_fips"].tolist()
                pr._cur["fit_y"] = list(getattr(pr, "_fit_y", []))
                pr._cur["lo_raw"] = np.array(r.lower, dtype=float).copy()
                pr._cur["hi_raw"] = np.array(r.upper, dtype=float).copy()
                cal = r.conformalization
                pr._cur["cal_lower"] = cal["lower_bounds"].to_numpy(dtype=float).copy()
                pr._cur["cal_upper"] = cal["upper_bounds"].to_numpy(dtype=float).copy()
                pr._cur["cal_w"] = cal[f"last_election_results_{estimand}"].to_numpy(dtype=float).copy()
                pr._cur["conf_frac"] = conf_frac
            return r

        def intervals(self_, reporting_units, nonreporting_units, alpha, estimand):
            cur = dict(alpha=alpha, estimand=estimand, robust=bool(self_.robust),
                       w=nonreporting_units[f"last_election_results_{estimand}"].to_numpy(dtype=float).copy(),
                       counted=nonreporting_units[f"results_{estimand}"].to_numpy(dtype=float).copy(),
                       n_rep=int(reporting_units.shape[0]),
                       ids=(nonreporting_units["geographic_unit_fips"].astype(str).tolist()
                            if "geographic_unit_fips" in nonreporting_units.columns else None))
            pr._cur = cur
            try:
                r = orig_i(self_, reporting_units, nonreporting_units, alpha, estimand)
            finally:
                pr._cur = None
            cur["lower"] = np.array(r.lower, dtype=float).copy()
            cur["upper"] = np.array(r.upper, dtype=float).copy()
            pr.calls.append(cur)
            return r

        from elexsolver.QuantileRegressionSolver import QuantileRegressionSolver

        def before_fit(args, kwargs):
            if pr._cur is not None and hasattr(pr, "_fit_rows"):
                pr._fit_rows.append(int(np.asarray(args[1]).shape[0]))
                pr._fit_y = np.asarray(args[2], dtype=float).ravel().tolist()

        def after_predict(tok, args, kwargs, res, exc):
            if getattr(pr, "_in_bounds", False) and res is not None:
                pr._preds.append(np.asarray(res, dtype=float).ravel().copy())

        p.wrap(QuantileRegressionSolver, "fit", before=before_fit)
        p.wrap(QuantileRegressionSolver, "predict", after=after_predict)
        p.set(ConformalElectionModel, "get_unit_prediction_interval_bounds", bounds)
        p.set(NonparametricElectionModel, "get_unit_prediction_intervals", intervals)
        # local-variable probe on the ORIGINAL code object
        mon = sys.monitoring
        code = orig_i.__code__
        try:
            mon.use_tool_id(TOOL_ID, "verif-c04")
        except ValueError:
            pass

        def on_return(code_, offset, retval):
            if pr._cur is None:
                return
            try:
                loc = sys._getframe(1).f_locals
                if "correction" in loc:
                    pr._cur["probe_correction"] = float(loc["correction"])
                    pr._cur["probe_quantile"] = float(loc["correction_quantile"])
                    pr.probe_hits += 1
            except Exception:  # noqa: BLE001
                pass

        mon.register_callback(TOOL_ID, mon.events.PY_RETURN, on_return)
        mon.set_local_events(TOOL_ID, code, mon.events.PY_RETURN)
        self._code = code

    def uninstall(self):
        mon = sys.monitoring
        try:
            mon.set_local_events(TOOL_ID, self._code, 0)
            mon.register_callback(TOOL_ID, mon.events.PY_RETURN, None)
            mon.free_tool_id(TOOL_ID)
        except Exception:  # noqa: BLE001
            pass


def reference_corrections(call_rec):
    """Candidate corrections per the statement (a small set when a cumulative share sits on the boundary)."""
    s = np.maximum(call_rec["cal_lower"], call_rec["cal_upper"])
    w = call_rec["cal_w"] / call_rec["cal_w"].sum()
    n = len(s)
    q = call_rec["alpha"] * (1 + 1 / n)
    vals = sorted(set(s.tolist()))
    cands = []
    info = dict(q=q, n_cal=n)
    for v in vals:
        share = float(w[s <= v].sum())
        if share > q + 1e-12:
            cands.append(v)
            break
        if share > q - 1e-12:
            cands.append(v)  # boundary: either side is acceptable in floating point
    if call_rec["robust"]:
        uq = float(np.quantile(s, q=q))
        cands = [max(c, uq) for c in cands]
        info["unweighted_quantile"] = uq
    info["ties"] = n - len(vals)
    info["max_weight"] = float(w.max())
    return cands, s, w, info


def publish(raw, c, w, counted, sign):
    b = raw - c if sign < 0 else raw + c
    b = b * w
    b = np.maximum(b + w, counted)
    return np.round(b)


def judge_call(rec, out):
    where = f"alpha={rec['alpha']} estimand={rec['estimand']} robust={rec['robust']}"
    if "cal_lower" not in rec:
        out["inconclusive"] = "bounds wrapper not reached"
        return None
    # the calibration units must be HELD OUT: the rows the two bound regressions were fit on and the calibration rows
    # partition the reporting units
    if rec.get("fit_rows") and "n_rep_bounds" in rec:
        n_cal_ = len(rec["cal_w"])
        out["counters"]["split_partitions_checked"] = out["counters"].get("split_partitions_checked", 0) + 1
        if any(fr + n_cal_ != rec["n_rep_bounds"] for fr in rec["fit_rows"]):
            out["violations"].append(dict(
                key="C04/calibration-units-not-held-out",
                msg=f"{where}: {rec['n_rep_bounds']} reporting units, bound regressions fit on {rec['fit_rows']} rows "
                    f"but {n_cal_} calibration units (training and calibration rows overlap or leave units out)",
                witness=dict(n_reporting=rec["n_rep_bounds"], fit_rows=rec["fit_rows"], n_cal=n_cal_)))
    # the conformity scores must measure the distance of the held-out units' ACTUAL values from the fitted bounds
    if "cal_actual" in rec and rec.get("bound_predictions"):
        sl, su, act = rec["cal_lower"], rec["cal_upper"], rec["cal_actual"]
        tol = 1e-9 * (1 + np.abs(act))
        pair = None
        for a in rec["bound_predictions"]:
            for b in rec["bound_predictions"]:
                if a is not b and np.all(np.abs((a - b) - (sl + su)) <= 1e-9 * (1 + np.abs(a) + np.abs(b))):
                    pair = (a, b)
                    break
            if pair:
                break
        if pair is None and len(rec["bound_predictions"]) >= 2 and len(act):
            out["counters"]["scores_unmatched_to_predictions"] = out["counters"].get("scores_unmatched_to_predictions", 0) + 1
        elif pair is not None:
            out["counters"]["scores_checked_against_actual"] = out["counters"].get("scores_checked_against_actual", 0) + 1
            bad = (np.abs(sl - (pair[0] - act)) > tol) | (np.abs(su - (act - pair[1])) > tol)
            if bad.any():
                j = int(np.argmax(bad))
                out["violations"].append(dict(
                    key="C04/calibration-score-not-from-actual-value",
                    msg=f"{where}: calibration unit #{j}: actual relative change {act[j]:.6g}, fitted bounds "
                        f"[{pair[0][j]:.6g}, {pair[1][j]:.6g}] give scores ({pair[0][j] - act[j]:.6g}, "
                        f"{act[j] - pair[1][j]:.6g}) but the model used ({sl[j]:.6g}, {su[j]:.6g})",
                    witness=dict(unit=j, actual=float(act[j]), n_bad=int(bad.sum()), n_cal=int(len(act)))))
    cands, s, w, info = reference_corrections(rec)
    if not cands:
        out["violations"].append(dict(key="C04/no-score-exceeds-quantile", msg=f"{where}: no calibration score has a "
                                      f"weighted share above q={info['q']}", witness=info))
        return info
    if len(rec["lower"]) != len(rec["w"]) or len(rec["upper"]) != len(rec["w"]):
        out["violations"].append(dict(
            key="C04/published-bounds-not-one-per-unit",
            msg=f"{where}: {len(rec['w'])} nonreporting units but {len(rec['lower'])} lower / {len(rec['upper'])} upper "
                f"bounds returned (bounds attached by row label instead of by unit?)", witness=dict(n=len(rec["w"]))))
        return info
    ok = None
    for c in cands:
        lo = publish(rec["lo_raw"], c, rec["w"], rec["counted"], -1)
        hi = publish(rec["hi_raw"], c, rec["w"], rec["counted"], +1)
        if np.array_equal(lo, rec["lower"]) and np.array_equal(hi, rec["upper"]):
            ok = c
            break
    info["correction"] = cands[0]
    if ok is None:
        c = cands[0]
        lo = publish(rec["lo_raw"], c, rec["w"], rec["counted"], -1)
        hi = publish(rec["hi_raw"], c, rec["w"], rec["counted"], +1)
        j = int(np.argmax((lo != rec["lower"]) | (hi != rec["upper"])))
        share = float(w[s <= rec.get("probe_correction", np.nan)].sum()) if "probe_correction" in rec else None
        out["violations"].append(dict(
            key=f"C04/published-bounds-not-calibrated/robust={rec['robust']}",
            msg=f"{where}: published interval of nonreporting unit #{j} is [{rec['lower'][j]},{rec['upper'][j]}] but the "
                f"correction required by the statement ({c}, q={info['q']:.6f}, n_cal={info['n_cal']}) gives "
                f"[{lo[j]},{hi[j]}]; code used correction={rec.get('probe_correction')} whose weighted share is {share}",
            witness=dict(info=info, probe=rec.get("probe_correction"), unit=j)))
    elif "probe_correction" in rec:
        if abs(rec["probe_correction"] - ok) > 1e-12 * max(1.0, abs(ok)):
            # same published bounds with another correction can only happen when every unit is floored
            out["counters"]["probe_differs_but_bounds_equal"] = out["counters"].get("probe_differs_but_bounds_equal", 0) + 1
        if abs(rec["probe_quantile"] - info["q"]) > 1e-12:
            out["violations"].append(dict(key="C04/quantile-level", msg=f"{where}: code used quantile level "
                                          f"{rec['probe_quantile']} but alpha(1+1/n_cal)={info['q']}", witness=info))
    info["negative"] = bool(cands[0] < 0)
    return info


# ---------------------------------------------------------------------------------------------------------------


def run_case(spec, inputs=None):
    if spec["part"] == "direct":
        return run_direct(spec)
    return run_det(spec, inputs) if spec["part"] == "det" else run_cov(spec)


def run_direct(spec):
    """Hostile calibration sets: the real get_unit_prediction_intervals with only the quantile-regression step
    (get_unit_prediction_interval_bounds) replaced by crafted bounds / scores / weights."""
    import pandas as pd

    harness.client_mod()
    from elexmodel.models.ConformalElectionModel import ConformalElectionModel, PredictionIntervals
    from elexmodel.models.NonparametricElectionModel import NonparametricElectionModel

    out = dict(violations=[], counters={}, sets={}, sigs=[])
    rng = gen.rng_for(spec["seed"], PROPERTY, spec["i"], salt=2)
    state = {}

    def fake_bounds(self_, reporting_units, nonreporting_units, conf_frac, alpha, estimand):
        return PredictionIntervals(state["lo"].copy(), state["hi"].copy(), state["cal"].copy())

    pr = Probes()
    with harness.patched() as p:
        p.set(ConformalElectionModel, "get_unit_prediction_interval_bounds", fake_bounds)
        pr.install(p)
        try:
            for t in range(DIRECT_PER_SPEC):
                alpha = float(gen.choice(rng, [0.05, 0.3, 0.5, 0.7, 0.8, 0.9, 0.95, 0.99, round(float(rng.uniform(0.05, 0.98)), 3)]))
                model = NonparametricElectionModel(dict(robust=bool(rng.random() < 0.5)))
                nmin = int(np.ceil(alpha / (1 - alpha))) + 1
                n_cal = nmin + int(gen.choice(rng, [0, 0, 1, 2, 5, 20, 100]))
                kind = gen.choice(rng, ["plain", "ties", "all-equal", "dominant", "negative", "integer-weights"])
                sc_lo = rng.normal(0, 0.1, size=n_cal)
                sc_hi = rng.normal(0, 0.1, size=n_cal)
                w = np.exp(rng.uniform(np.log(10), np.log(50000), size=n_cal)).round()
                if kind == "ties":
                    sc_lo = np.round(sc_lo, 1)
                    sc_hi = np.round(sc_hi, 1)
                elif kind == "all-equal":
                    sc_lo[:] = 0.05
                    sc_hi[:] = -0.02
                elif kind == "dominant":
                    w[int(rng.integers(0, n_cal))] = w.sum() * 3
                elif kind == "negative":
                    sc_lo -= 0.5
                    sc_hi -= 0.5
                elif kind == "integer-weights":
                    w[:] = 100  # shares that hit the quantile level exactly are possible
                m = int(rng.integers(1, 6))
                wn = np.exp(rng.uniform(np.log(10), np.log(50000), size=m)).round()
                non = pd.DataFrame(dict(last_election_results_turnout=wn,
                                        results_turnout=np.where(rng.random(m) < 0.3, wn * 2, 0.0)))
                lab = int(rng.integers(0, 4))
                if lab == 1:    # the frame is a boolean-mask slice of a larger one: labels are not 0..m-1
                    non.index = np.sort(rng.choice(np.arange(3 * m + 5), size=m, replace=False))
                elif lab == 2:  # sorted / sampled without reset_index: labels are a permutation
                    non.index = rng.permutation(m)
                elif lab == 3:
                    non.index = [f"u{j}" for j in range(m)]
                out["sets"]["direct_row_labels"] = [["0..m-1", "mask-slice", "permuted", "strings"][lab]]
                rep = pd.DataFrame(dict(x=np.zeros(n_cal + 3)))
                state["lo"] = rng.normal(-0.1, 0.05, size=m)
                state["hi"] = rng.normal(0.1, 0.05, size=m)
                state["cal"] = pd.DataFrame(dict(lower_bounds=sc_lo, upper_bounds=sc_hi, last_election_results_turnout=w))
                pr.calls.clear()
                try:
                    model.get_unit_prediction_intervals(rep, non, alpha, "turnout")
                except Exception as e:  # noqa: BLE001
                    out["violations"].append(dict(key=f"C04/direct/raised/{type(e).__name__}", msg=f"alpha={alpha} "
                                                  f"n_cal={n_cal} kind={kind}: {type(e).__name__}: {e}",
                                                  witness=dict(alpha=alpha, n_cal=n_cal, kind=kind)))
                    continue
                out["counters"]["direct_calls"] = out["counters"].get("direct_calls", 0) + 1
                for rec in pr.calls:
                    before = len(out["violations"])
                    info = judge_call(rec, out)
                    if len(out["violations"]) > before:
                        out["violations"][-1]["witness"]["calibration"] = dict(
                            kind=kind, lower_bounds=sc_lo.tolist()[:30], upper_bounds=sc_hi.tolist()[:30],
                            weights=w.tolist()[:30])
                    if info:
                        out["counters"]["interval_computations"] = out["counters"].get("interval_computations", 0) + 1
                        for k_, c_ in (("ties", "with_ties"), ("negative", "negative_corrections")):
                            if info.get(k_):
                                out["counters"][c_] = out["counters"].get(c_, 0) + 1
                        if info.get("max_weight", 0) > 0.5:
                            out["counters"]["dominant_weight"] = out["counters"].get("dominant_weight", 0) + 1
                        out["sigs"].append(["direct", alpha if alpha in (0.5, 0.7, 0.9, 0.95) else "other",
                                            rec["robust"], kind, min(n_cal - nmin, 3)])
        finally:
            pr.uninstall()
    out["counters"]["probe_hits"] = pr.probe_hits
    out["nontrivial"] = bool(out["sigs"])
    out["violations"] = out["violations"][:20]
    return out


def run_det(spec, inputs=None):
    if inputs is not None:
        el, feed, call = gen.dematerialise(inputs)
        status = {}
    else:
        o = dict(estimator="nonparametric")
        if spec["i"] % 3 == 0:
            o.update(el_noise_scale=0.02)  # tight noise: negative corrections
        if spec["i"] % 5 == 0:
            o.update(el_equal_baseline=True)
        if spec["i"] % 6 == 4:
            # a party that more than doubles in many units while turnout is ordinary (relative changes far outside
            # the band of the turnout-factor gate), estimated for that party
            o.update(el_party_surge=True, estimands=[["dem"], ["gop", "dem"], ["dem", "turnout"]][spec["i"] % 3])
        el, feed, status, call = cases_mod.build(spec["seed"], PROPERTY, spec["i"], o)
        call["model_parameters"]["robust"] = bool(spec["i"] % 2)
        if spec["i"] % 7 == 3:
            # exactly the minimum number of reporting units (or one / two more) for the largest requested level: the
            # split has a single training unit there
            from . import c14

            alphas = [a for a in call["prediction_intervals"] if a <= 0.96] or [0.7]
            nmin = int(np.ceil(c14.minimum_for("nonparametric", alphas)))
            el, feed, call2, _ = c14.clean_case(dict(seed=spec["seed"], i=spec["i"]), "nonparametric",
                                                nmin + int(spec["i"] % 3), alphas, salt=spec["i"] % 3)
            call2["model_parameters"]["robust"] = bool(spec["i"] % 2)
            call, status = call2, {}
    out = dict(violations=[], counters={}, sets={}, sigs=[])
    pr = Probes()
    with harness.patched() as p:
        pr.install(p)
        try:
            res, exc = harness.run_estimates(el, feed, call)
        finally:
            pr.uninstall()
    cm = harness.client_mod()
    if exc is not None:
        if isinstance(exc, cm.ModelNotEnoughSubunitsException):
            out["counters"]["not_enough_units"] = 1
        else:
            out["counters"]["run_raised"] = 1
            out["sets"]["raised"] = [harness.exc_info(exc)["type"] + ":" + harness.exc_info(exc)["where"][-70:]]
        return out
    out["counters"]["det_runs"] = 1
    out["counters"]["probe_hits"] = pr.probe_hits
    for rec in pr.calls:
        info = judge_call(rec, out)
        out["counters"]["interval_computations"] = out["counters"].get("interval_computations", 0) + 1
        if info is None:
            continue
        cls = []
        if info.get("ties"):
            cls.append("ties")
            out["counters"]["with_ties"] = out["counters"].get("with_ties", 0) + 1
        if info.get("negative"):
            cls.append("negative")
            out["counters"]["negative_corrections"] = out["counters"].get("negative_corrections", 0) + 1
        if info.get("max_weight", 0) > 0.5:
            cls.append("dominant-weight")
            out["counters"]["dominant_weight"] = out["counters"].get("dominant_weight", 0) + 1
        if cls:
            out["sigs"].append(["det", rec["alpha"], rec["robust"], sorted(call["features"]), cls,
                                min(info["n_cal"] // 10, 5)])
    # the interval computed at level alpha must be the one PUBLISHED under that level's column names
    ut = res.get("unit_data")
    if ut is not None and pr.calls:
        by_id = {str(f): j for j, f in enumerate(ut["geographic_unit_fips"].astype(str).tolist())}
        for rec in pr.calls:
            if not rec.get("ids"):
                continue
            for side in ("lower", "upper"):
                col = f"{side}_{rec['alpha']}_{rec['estimand']}"
                if col not in ut.columns:
                    out["violations"].append(dict(key="C04/published-column-missing", msg=f"unit table has no column "
                                                  f"{col} (columns {list(ut.columns)})", witness={}))
                    continue
                vals = ut[col].to_numpy(dtype=float)
                got = np.array([vals[by_id[f]] if f in by_id else np.nan for f in rec["ids"]])
                out["counters"]["published_columns_compared"] = out["counters"].get("published_columns_compared", 0) + 1
                if not np.array_equal(got, rec[side]):
                    j = int(np.argmax(got != rec[side]))
                    out["violations"].append(dict(
                        key="C04/table-column-is-not-the-interval-of-its-level",
                        msg=f"levels requested {call['prediction_intervals']}: column {col} of unit {rec['ids'][j]} is "
                            f"{got[j]}, the interval calibrated at level {rec['alpha']} for it is {rec[side][j]}",
                        witness=dict(levels=call["prediction_intervals"], column=col, unit=rec["ids"][j])))
    if len(call["prediction_intervals"]) > 1 and list(call["prediction_intervals"]) != sorted(call["prediction_intervals"]):
        out["counters"]["runs_with_unsorted_levels"] = 1
    out["nontrivial"] = bool(out["sigs"])
    if out["violations"]:
        out["inputs"] = gen.materialise(el, feed, call)
    if spec["i"] % 41 == 0 and pr.calls:
        r0 = pr.calls[0]
        out["sample"] = gen.jsonable(dict(part="det", election=el.meta, call=call, alpha=r0["alpha"],
                                          n_cal=len(r0.get("cal_w", [])), probe_correction=r0.get("probe_correction"),
                                          first_bounds=[r0["lower"][:3], r0["upper"][:3]]))
    return out


def run_cov(spec):
    out = dict(violations=[], counters={}, sets={}, sigs=[])
    harness.client_mod()
    from elexmodel.models.NonparametricElectionModel import NonparametricElectionModel

    alpha, noise, robust = spec["alpha"], spec["noise"], spec["robust"]
    nmin = NonparametricElectionModel({}).get_minimum_reporting_units(alpha)
    cell = f"alpha={alpha}|noise={noise}|robust={robust}"
    hits = trials = 0
    rng = gen.rng_for(spec["seed"], PROPERTY, spec["i"], salt=1)
    feats_seen = set()
    for t in range(PER_SPEC):
        n_rep = int(nmin + rng.integers(0, 41))
        n_tot = n_rep + int(rng.integers(5, 30))
        feats = [[], ["x1"], ["x1", "x2"]][int(rng.integers(0, 3))]
        o = dict(estimator="nonparametric", district=False, el_n_states=1, el_n_units=n_tot, el_counties_per_state=1,
                 el_equal_baseline=True, el_n_zero_baseline=0, el_noise=noise, el_noise_scale=0.1,
                 el_county_effect_scale=0.0, el_cov="normal", el_float_baseline=False,
                 feed_n_missing=0, feed_n_unexpected=0, feed_p_strange=0.0, feed_boundary=False, feed_p_partial=0.0,
                 feed_frac_reporting=n_rep / n_tot, threshold=100, policy="drop", alphas=[alpha],
                 aggregates=["unit"], features=feats, fixed_effects={}, estimands=["turnout"],
                 mp=dict(fit_turnout_outlier_model=False, fit_margin_outlier_model=False, turnout_factor_lower=0.0,
                         turnout_factor_upper=1e9, robust=robust))
        el, feed, status, call = cases_mod.build(spec["seed"], PROPERTY, spec["i"] * 100 + t, o)
        for k in ("unit_blocklist", "postal_code_blocklist", "lambda_"):
            call["model_parameters"].pop(k, None)
        res, exc = harness.run_estimates(el, feed, call)
        if exc is not None:
            out["counters"]["cov_not_run"] = out["counters"].get("cov_not_run", 0) + 1
            continue
        ud = res["unit_data"]
        non = ud[(ud.reporting == 0) & (ud.unit_category == "expected")]
        if len(non) == 0:
            continue
        row = non.iloc[int(rng.integers(0, len(non)))]
        truth = float(el.truth.set_index("geographic_unit_fips").loc[row.geographic_unit_fips, "turnout"])
        covered = row[f"lower_{alpha}_turnout"] <= truth <= row[f"upper_{alpha}_turnout"]
        trials += 1
        hits += int(covered)
        feats_seen.add(",".join(feats))
    out["counters"][f"cov_trials|{cell}"] = trials
    out["counters"][f"cov_hits|{cell}"] = hits
    out["counters"]["coverage_trials"] = trials
    out["sigs"] = [["cov", alpha, robust, noise, f] for f in sorted(feats_seen)]
    out["nontrivial"] = trials > 0
    if spec["i"] % 1000 == 0:
        out["sample"] = dict(part="coverage", cell=cell, trials=trials, hits=hits, minimum_reporting_units=int(nmin))
    return out


def finalize(agg):
    from scipy.stats import binom

    c = agg["counters"]
    if not c.get("interval_computations"):
        return "no interval computation observed", {}
    if not c.get("probe_hits"):
        return "local probe never observed `correction`", {}
    for k in ("with_ties", "negative_corrections"):
        if not c.get(k):
            return f"calibration-set class never observed: {k}", {}
    cells = sorted(k.split("|", 1)[1] for k in c if k.startswith("cov_trials|"))
    table, viols = {}, []
    for cell in cells:
        n, h = c[f"cov_trials|{cell}"], c.get(f"cov_hits|{cell}", 0)
        alpha = float(cell.split("|")[0].split("=")[1])
        if n < 500:
            return f"coverage cell {cell} has only {n} trials", {}
        tail = float(binom.cdf(h, n, alpha))
        table[cell] = dict(trials=n, hits=h, coverage=round(h / n, 4), binomial_tail=tail)
        if tail < 1e-9:
            viols.append(dict(key=f"C04/coverage-below-alpha/{cell.split('|')[2]}",
                              msg=f"coverage {h}/{n}={h / n:.4f} for {cell}: P(Bin(n,alpha)<=hits)={tail:.3e} < 1e-9",
                              witness=table[cell]))
    return None, dict(coverage_cells=table), viols
