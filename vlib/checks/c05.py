"""C05 - with no covariates the model is uniform swing by the weighted median."""
import numpy as np

from .. import cases as cases_mod
from .. import gen, harness
from .. import reference as ref
from . import common

PROPERTY = "C05"
LEVEL = "exploration"
RULE = ("real get_estimates runs (nonparametric and gaussian) with features=[] and fixed_effects={} on generated "
        "elections (1-4 states, 7-400 units, heavy-tailed / tied residuals, one dominant unit, partial counts above "
        "and below the prediction). Oracle: the baseline-weighted median interval [m_lo, m_hi] of (counted-w)/w over "
        "the modelled reporting units (w = baseline+1) is computed by sorting in plain python with exact integer "
        "weight sums; where it is a single point every nonreporting unit must carry round(max(m*w + w, partial)). "
        "Non-trivial: unique median and >=3 nonreporting units of which one is floored and one is not; distinct = "
        "(estimator, #states, estimand, n bucket, tie structure)")
ASSUMPTIONS = ["the set of modelled reporting units is read from the returned reporting / unit_category columns "
               "(C09 checks that set)",
               "a value within 1e-6 of x.5 before rounding may differ by one vote (counted as rounding_ties)"]
BATCH = {"quick": 10, "thorough": 25}
BUDGET = {"quick": 120, "thorough": 1500}
MIN_NONTRIVIAL = {"quick": 15, "thorough": 40}
N = {"quick": 400, "thorough": 10000}


N_DIRECT = {"quick": 48, "thorough": 1200}
DIRECT_PER_SPEC = 40


def cases(tier, seed):
    return [dict(seed=seed, i=i) for i in range(N[tier])] + [dict(part="direct", seed=seed, i=300000 + i)
                                                             for i in range(N_DIRECT[tier])]


def run_direct(spec):
    """The model classes called directly (as the repository's own tests do) with frames whose row labels are not
    0..n-1: shuffled, offset, duplicated or string labels.  The prediction is a function of the rows, not of labels."""
    import pandas as pd

    harness.client_mod()
    from elexmodel.models.GaussianElectionModel import GaussianElectionModel
    from elexmodel.models.NonparametricElectionModel import NonparametricElectionModel

    out = dict(violations=[], counters={}, sets={}, sigs=[])
    rng = gen.rng_for(spec["seed"], PROPERTY, spec["i"], salt=5)
    for t in range(DIRECT_PER_SPEC):
        n, m = int(rng.integers(5, 80)), int(rng.integers(1, 12))
        w = np.exp(rng.uniform(np.log(20), np.log(50000), size=n + m)).round() + 1
        if rng.random() < 0.2:
            w[:] = 1001.0
        resid = np.round(rng.normal(0, 0.15, size=n), int(gen.choice(rng, [2, 6, 12])))
        results = np.round(w[:n] * (1 + resid))
        rep = pd.DataFrame(dict(postal_code="AA", geographic_unit_fips=[f"u{i}" for i in range(n)], reporting=1,
                                unit_category="expected", last_election_results_turnout=w[:n], results_turnout=results))
        rep["residuals_turnout"] = (rep.results_turnout - rep.last_election_results_turnout) / rep.last_election_results_turnout
        partial = np.where(rng.random(m) < 0.3, np.round(w[n:] * rng.uniform(1.2, 2.5, size=m)), 0.0)
        non = pd.DataFrame(dict(postal_code="AA", geographic_unit_fips=[f"v{i}" for i in range(m)], reporting=0,
                                unit_category="expected", last_election_results_turnout=w[n:], results_turnout=partial))
        label = gen.choice(rng, ["range", "shuffled", "offset", "sorted-by-residual", "string", "duplicated"])
        if label == "shuffled":
            rep = rep.sample(frac=1, random_state=int(rng.integers(0, 10**6)))
            non = non.sample(frac=1, random_state=int(rng.integers(0, 10**6)))
        elif label == "offset":
            rep.index = rep.index + 1000
            non.index = non.index + 5
        elif label == "sorted-by-residual":
            rep = rep.sort_values("residuals_turnout", ascending=False)
        elif label == "string":
            rep.index = [f"r{i}" for i in range(n)]
        elif label == "duplicated":
            rep.index = [0] * n
            non.index = [0] * m
        ws = [float(x) for x in rep.last_election_results_turnout]
        rs = [float(x) for x in rep.residuals_turnout]
        lo, hi = weighted_median_interval(rs, ws)
        if lo is None or lo != hi:
            out["counters"]["skipped_nonunique"] = out["counters"].get("skipped_nonunique", 0) + 1
            continue
        est = "nonparametric" if rng.random() < 0.5 else "gaussian"
        model = (NonparametricElectionModel if est == "nonparametric" else GaussianElectionModel)(
            dict(features=[], fixed_effects={}))
        try:
            preds, _ = model.get_unit_predictions(rep.copy(), non.copy(), "turnout")
            got = np.asarray(preds, dtype=float)
        except Exception as e:  # noqa: BLE001
            out["violations"].append(dict(key=f"C05/direct/{est}/raised/{type(e).__name__}/{label}-labels",
                                          msg=f"get_unit_predictions raised {type(e).__name__}: {str(e)[:150]} with "
                                              f"{label} row labels", witness=dict(labels=label, n=n, m=m)))
            continue
        wn = non.last_election_results_turnout.to_numpy(dtype=float)
        pn = non.results_turnout.to_numpy(dtype=float)
        raw = np.float64(lo) * wn + wn
        want = np.round(np.maximum(raw, pn))
        out["counters"]["direct_calls"] = out["counters"].get("direct_calls", 0) + 1
        out["counters"]["nonreporting_units_checked"] = out["counters"].get("nonreporting_units_checked", 0) + m
        bad = np.where(got != want)[0]
        bad = [j for j in bad if not (abs(got[j] - want[j]) <= 1 and abs((raw[j] % 1.0) - 0.5) < 1e-6)]
        if bad:
            j = bad[0]
            out["violations"].append(dict(
                key=f"C05/direct/{est}/prediction-not-uniform-swing/{label}-labels",
                msg=f"{label} row labels, n={n}: nonreporting unit #{j} predicted {got[j]} but the weighted median "
                    f"m={lo} gives {want[j]}", witness=dict(labels=label, n=n, m=float(lo), got=float(got[j]),
                                                           want=float(want[j]))))
        out["sigs"].append(["direct", est, label, min(n // 20, 3)])
    out["nontrivial"] = bool(out["sigs"])
    out["violations"] = out["violations"][:10]
    if spec["i"] % 16 == 0:
        out["sample"] = dict(part="direct", last_labels=label, n_reporting=n, n_nonreporting=m, median=lo)
    return out


def build(spec):
    i = spec["i"]
    rng = gen.rng_for(spec["seed"], PROPERTY, i, salt=9)
    o = dict(estimator=["nonparametric", "gaussian"][i % 2], features=[], fixed_effects={},
             el_n_units=int(gen.choice(rng, [12, 20, 40, 80, 150, 400])), feed_partial_above=float(gen.choice(rng, [0, 0.3])),
             feed_p_partial=0.7, n_estimands=int(gen.choice(rng, [1, 2])), el_float_baseline=bool(rng.random() < 0.3))
    if i % 5 == 0:
        o["el_equal_baseline"] = True  # many exact ties in the weights -> non-unique medians do occur
    el, feed, status, call = cases_mod.build(spec["seed"], PROPERTY, i, o)
    call["model_parameters"].pop("lambda_", None)
    if i % 3 == 1:
        # a ridge penalty must leave the covariate-free model alone: there is no coefficient besides the (never
        # penalised) intercept, the swing stays the weighted median
        call["model_parameters"]["lambda_"] = float(gen.choice(rng, [0.5, 10.0, 1000.0]))
    if i % 7 == 0:
        # one dominant unit
        j = int(rng.integers(0, len(el.pre)))
        el.pre.loc[j, ["baseline_turnout", "baseline_dem", "baseline_gop"]] = [5_000_000, 2_500_000, 2_400_000]
    if "unit" not in call["aggregates"]:
        call["aggregates"].append("unit")
    if i % 4 == 3:
        # primary-style config: several estimands (new candidates) point at ONE baseline column
        pointer = {"turnout": "turnout", "dem": "dem", "gop": "gop", "cand_a": "dem", "cand_b": "dem", "cand_c": "gop",
                   "cand_d": "dem"}
        el.config[el.election_id][0]["baseline_pointer"] = pointer
        share = float(rng.uniform(0.2, 0.8))
        feed["results_cand_a"] = np.floor(feed["results_dem"] * share)
        feed["results_cand_b"] = feed["results_dem"] - feed["results_cand_a"]
        feed["results_cand_c"] = feed["results_gop"]
        feed["results_cand_d"] = np.floor(feed["results_dem"] * 0.5)
        pool = ["cand_a", "cand_b", "cand_c", "cand_d", "turnout"]
        k = int(rng.integers(2, 5))
        call["estimands"] = [pool[j] for j in rng.permutation(len(pool))[:k]]
    return el, feed, status, call


def pointer_of(el, e):
    return el.config[el.election_id][0].get("baseline_pointer", {}).get(e, e)


def weighted_median_interval(r, w):
    """r: list of floats, w: list of exact integer-valued weights.  Returns (m_lo, m_hi)."""
    order = sorted(range(len(r)), key=lambda k: r[k])
    total = sum(int(x) for x in w)
    # group equal r values
    vals, wts = [], []
    for k in order:
        if vals and r[k] == vals[-1]:
            wts[-1] += int(w[k])
        else:
            vals.append(r[k])
            wts.append(int(w[k]))
    cum = 0
    for idx, (v, ww) in enumerate(zip(vals, wts)):
        below = cum
        above = total - cum - ww
        if 2 * below <= total and 2 * above <= total:
            lo = v
            hi = v
            if 2 * (cum + ww) == total and idx + 1 < len(vals):
                hi = vals[idx + 1]
            return lo, hi
        cum += ww
    return None, None


def checker(el, feed, call, res, client):
    out, cnt = [], {}
    base = {r["geographic_unit_fips"]: r for r in ref.rows(el.pre)}
    urows = ref.rows(res["unit_data"])
    strangers = [u["geographic_unit_fips"] for u in urows if u["unit_category"] == "expected"
                 and u["geographic_unit_fips"] not in base]
    if strangers:
        # a unit is modelled although the baseline of the configured states does not contain it (e.g. a row of a state
        # the config does not name): the median is then not the one over the modelled reporting units of the statement
        return [dict(key="C05/modelled-unit-outside-the-configured-baseline",
                     msg=f"{len(strangers)} units are treated as modelled ('expected') but are not in the baseline of "
                         f"the configured states: {strangers[:5]}", witness=dict(units=strangers[:10]))], cnt
    for e in call["estimands"]:
        rep = [u for u in urows if u["unit_category"] == "expected" and u["reporting"] == 1]
        non = [u for u in urows if u["unit_category"] == "expected" and u["reporting"] == 0]
        ws, rs = [], []
        integral = True
        for u in rep:
            b = float(base[u["geographic_unit_fips"]][f"baseline_{pointer_of(el, e)}"])
            w = b + 1.0
            if w != int(w):
                integral = False
            ws.append(w)
            rs.append(float((np.float64(u[f"results_{e}"]) - np.float64(w)) / np.float64(w)))
        if not rep or not integral:
            cnt["skipped_no_reporting_or_nonintegral"] = cnt.get("skipped_no_reporting_or_nonintegral", 0) + 1
            continue
        lo, hi = weighted_median_interval(rs, ws)
        if lo is None:
            cnt["skipped_no_median"] = cnt.get("skipped_no_median", 0) + 1
            continue
        if lo != hi:
            cnt["skipped_nonunique"] = cnt.get("skipped_nonunique", 0) + 1
            continue
        cnt["unique_median_estimands"] = cnt.get("unique_median_estimands", 0) + 1
        m = np.float64(lo)
        floored = unfloored = 0
        for u in non:
            w = np.float64(float(base[u["geographic_unit_fips"]][f"baseline_{pointer_of(el, e)}"]) + 1.0)
            partial = np.float64(u[f"results_{e}"])
            raw = m * w + w
            want = float(np.round(np.maximum(raw, partial)))
            got = float(u[f"pred_{e}"])
            cnt["nonreporting_units_checked"] = cnt.get("nonreporting_units_checked", 0) + 1
            if partial >= raw:
                floored += 1
            else:
                unfloored += 1
            if got != want:
                frac = abs((float(raw) % 1.0) - 0.5)
                if abs(got - want) <= 1 and frac < 1e-6 and partial < raw:
                    cnt["rounding_ties"] = cnt.get("rounding_ties", 0) + 1
                    continue
                if call["model_parameters"].get("lambda_", 0) > 0 and abs(got - want) <= 1 + 2e-4 * float(w):
                    # lambda_ > 0 sends the fit to the conic solver, which returns the median only up to its
                    # accuracy (seen on the unchanged tree: swing off by 2e-5, one vote on a unit of 8 500): the
                    # statement equates the model with the weighted median, not the solver's last digits
                    cnt["within_conic_solver_accuracy"] = cnt.get("within_conic_solver_accuracy", 0) + 1
                    continue
                out.append(dict(key=f"C05/{call['pi_method']}/prediction-not-uniform-swing",
                                msg=f"unit {u['geographic_unit_fips']} pred_{e}={got} but weighted median m={float(m)} "
                                    f"gives round(max({float(raw)}, {float(partial)}))={want} (n_reporting={len(rep)})",
                                witness=dict(unit=u["geographic_unit_fips"], estimand=e, m=float(m), w=float(w),
                                             partial=float(partial), got=got, want=want, n_reporting=len(rep))))
        if floored and unfloored and len(non) >= 3:
            cnt["estimands_with_floored_and_unfloored"] = cnt.get("estimands_with_floored_and_unfloored", 0) + 1
    return out, cnt


def run_case(spec, inputs=None):
    if spec.get("part") == "direct":
        return run_direct(spec)
    if inputs is not None:
        el, feed, call = gen.dematerialise(inputs)
        status = inputs.get("status", {})
    else:
        el, feed, status, call = build(spec)
    out = dict(violations=[], counters={}, sets={}, nontrivial=False)
    with harness.patched() as p:
        if call["pi_method"] == "gaussian":
            harness.fast_boot_sigma(p, 50)
        res, exc, client = harness.run_estimates(el, feed, call, want_client=True)
    cm = harness.client_mod()
    if exc is not None:
        if isinstance(exc, cm.ModelNotEnoughSubunitsException):
            out["counters"]["not_enough_units"] = 1
        else:
            out["counters"]["run_raised"] = 1
            out["sets"]["raised"] = [harness.exc_info(exc)["type"] + ":" + harness.exc_info(exc)["where"][-70:]]
        return out
    vs, cnt = checker(el, feed, call, res, client)
    out["violations"] = vs
    out["counters"].update(cnt)
    out["counters"]["runs_completed"] = 1
    out["counters"][f"runs_{call['pi_method']}"] = 1
    out["nontrivial"] = bool(cnt.get("estimands_with_floored_and_unfloored"))
    if any(pointer_of(el, e) != e for e in call["estimands"]):
        out["counters"]["runs_with_shared_baseline_pointer"] = 1
    n = len(feed)
    out["sig"] = [call["pi_method"], el.meta["n_states"], call["estimands"], min(n // 50, 5), bool(el.meta["equal_baseline"]),
                  call["percent_reporting_threshold"], call["handle_unreporting"]]
    if vs:
        m = gen.materialise(el, feed, call)
        m["status"] = status
        out["inputs"] = m
    if spec["i"] % 101 == 0:
        out["sample"] = common.sample_of(dict(el=el, feed=feed, status=status, call=call, res=res), dict(counters=cnt))
    return out


def finalize(agg):
    c = agg["counters"]
    if not c.get("unique_median_estimands"):
        return "no case with a unique weighted median", {}
    if not c.get("runs_nonparametric") or not c.get("runs_gaussian"):
        return "an estimator was never run", {}
    return None, {}
