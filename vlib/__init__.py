"""Runtime-monitoring harness for washingtonpost/elex-live-model (see /verif/DESIGN.md)."""
