"""C11 - an unexpected unit only adds its own votes."""
import numpy as np
import pandas as pd

from .. import cases as cases_mod
from .. import gen, harness, tablecheck
from .. import reference as ref

PROPERTY = "C11"
LEVEL = "exploration"
RULE = ("two-run monitor: a generated election is run without and with 1-3 extra feed rows for units that are not in "
        "the baseline (known county / unknown county / unknown district / a state without baseline rows; 0, 40, 100, "
        "120 percent; zero and large votes), for random aggregate lists, statewide and district offices, all three "
        "estimators. The second run must not raise; its tables must equal the first run's plus exactly the extra "
        "votes on the groups the unit ids attribute them to (new group rows only where the county/district had no "
        "baseline unit), one 'unexpected' unit row per extra unit, everything else bit-identical; for the bootstrap "
        "additionally the stored draw matrices must be bit-identical and the bounds of affected groups are recomputed "
        "from those draws. Non-trivial: pair in which >=1 existing group received votes and >=1 other group was "
        "compared; distinct = (estimator, office kind, kinds of extra units, #aggregate levels, classification?, "
        "new group created?)")
ASSUMPTIONS = ["extra units of a state that has no baseline rows and (district offices) extra units that lift a "
               "district from <=10 to >10 units change the shape of the bootstrap's contest matrices; they are generated "
               "as separate classes with their own finding keys",
               "gaussian runs use the real boot_sigma with 300 resamples"]
BATCH = {"quick": 5, "thorough": 15}
BUDGET = {"quick": 150, "thorough": 1500}
MIN_NONTRIVIAL = {"quick": 20, "thorough": 40}
N = {"quick": 210, "thorough": 5000}


def cases(tier, seed):
    return [dict(seed=seed, i=i) for i in range(N[tier])]


def build(spec):
    i = spec["i"]
    rng = gen.rng_for(spec["seed"], PROPERTY, i, salt=1)
    est = ["nonparametric", "gaussian", "bootstrap"][i % 3]
    o = dict(estimator=est, feed_n_unexpected=int(gen.choice(rng, [0, 0, 1])), feed_frac_reporting=0.6, B=10,
             allow_pointer_config=False,
             el_n_units=int(rng.integers(50, 150)))
    if i % 4 == 3:
        o["district"] = True
    if i % 7 == 5:  # the count is over (every expected unit reports, nothing left to model) and a stray unit shows up
        o.update(feed_frac_reporting=1.0, feed_n_missing=0)
    el, feed, status, call = cases_mod.build(spec["seed"], PROPERTY, i, o)
    kinds_pool = ["known_county", "unknown_county"] + (["unknown_district"] if el.district else [])
    if i % 10 == 9:
        kinds_pool = ["no_baseline_state"]
    if i % 10 == 7:
        kinds_pool = ["bare_id"]  # an id without any '_' (a state-wide absentee / provisional pseudo-unit)
    if i % 10 == 4:
        kinds_pool = ["padded_id"]  # an id that differs from a baseline unit's id only by surrounding whitespace
    n_extra = int(gen.choice(rng, [1, 1, 2, 3]))
    extras = []
    used = set(feed.geographic_unit_fips) | set(el.pre.geographic_unit_fips)
    for k in range(n_extra):
        kind = gen.choice(rng, kinds_pool)
        b = el.pre.iloc[int(rng.integers(0, len(el.pre)))]
        st = b.postal_code
        county = b.county_fips if kind == "known_county" else f"{b.county_fips[:2]}8{k:02d}"
        if kind == "no_baseline_state":
            st, county = "ZZ", f"98{k:03d}"
        if el.district:
            d = b.district if kind != "unknown_district" else "66"
            f = f"{d}_{county}_8{k:02d}"
        elif el.geo_type == "county":
            f = f"{county}8{k}"
        else:
            f = f"{county}_8{k:02d}"
        if kind == "bare_id":
            f = ["ABSENTEE", "PROVISIONAL", "99999"][k % 3] + ("" if k < 3 else str(k))
        if kind == "padded_id":
            f = (" " + str(b.geographic_unit_fips)) if rng.random() < 0.5 else (str(b.geographic_unit_fips) + " ")
        if f in used:
            continue
        used.add(f)
        pct = float(gen.choice(rng, [0, 40, 100, 120]))
        tt = int(gen.choice(rng, [0, int(rng.integers(1, 300)), int(rng.integers(1000, 200000))]))
        td = int(tt * rng.uniform(0.1, 0.8))
        tg = int((tt - td) * rng.uniform(0.5, 1.0))
        extras.append(dict(postal_code=st, geographic_unit_fips=f, percent_expected_vote=pct, results_turnout=tt,
                           results_dem=td, results_gop=tg, kind=kind))
    ex = pd.DataFrame([{k: v for k, v in e.items() if k != "kind"} for e in extras], columns=list(feed.columns))
    for c in feed.columns:
        if c in ex.columns and len(ex):
            ex[c] = ex[c].astype(feed[c].dtype)
    feed2 = pd.concat([feed, ex]).reset_index(drop=True)
    return el, feed, feed2, status, call, extras


def run_case(spec, inputs=None):
    if inputs is not None:
        el, feed, call = gen.dematerialise(inputs)
        feed2 = gen._read(inputs["feed2_csv"], inputs["feed_dtypes"])
        extras = inputs["extras"]
    else:
        el, feed, feed2, status, call, extras = build(spec)
    est = call["pi_method"]
    out = dict(violations=[], counters={}, sets={}, nontrivial=False)
    if not extras:
        out["counters"]["no_extra_unit"] = 1
        return out

    def V(key, msg, **w):
        if len(out["violations"]) < 12:
            out["violations"].append(dict(key=key, msg=msg, witness=w))

    kinds = sorted({e["kind"] for e in extras})
    special = "no_baseline_state" in kinds
    cls = "state-without-baseline" if special else "/".join(kinds)
    # district-size class (bootstrap contest filter counts every unit)
    if el.district and est == "bootstrap":
        cnt = {}
        for r in ref.rows(el.pre):
            cnt[(r["postal_code"], r["district"])] = cnt.get((r["postal_code"], r["district"]), 0) + 1
        for r in ref.rows(feed):
            if r["geographic_unit_fips"] not in set(el.pre.geographic_unit_fips):
                k = (r["postal_code"], r["geographic_unit_fips"].split("_")[0])
                cnt[k] = cnt.get(k, 0) + 1
        cnt2 = dict(cnt)
        for e in extras:
            k = (e["postal_code"], e["geographic_unit_fips"].split("_")[0])
            cnt2[k] = cnt2.get(k, 0) + 1
        if any((cnt.get(k, 0) <= 10) != (cnt2[k] <= 10) or (k not in cnt) for k in cnt2):
            cls += "+district-set-changes"
    runs = []
    night = None
    if inputs is None and (spec["i"] // 3) % 3 == 1 and not special and "padded_id" not in kinds:
        # history: ONE client for the night.  Earlier it answered a poll whose baseline file still listed the extra
        # units as ordinary (expected) units; the file has been corrected since (precincts merged away), so for the
        # two polls judged here the same ids arrive without a baseline.
        night = _warm_client(el, feed2, call, extras, est)
        out["counters"]["pairs_on_a_client_that_knew_the_units_as_expected"] = 1
    for fd in (feed, feed2):
        with harness.patched() as p:
            if est == "gaussian":
                harness.fast_boot_sigma(p)
            r_, e_, c_ = harness.run_estimates(el, fd, call, want_client=True, client=night)
            if night is not None:
                # both polls are answered by one client object: keep what THIS poll left on it (the client builds a
                # new model and results handler for every poll)
                import types

                c_ = types.SimpleNamespace(model=c_.model, results_handler=getattr(c_, "results_handler", None))
            runs.append((r_, e_, c_))
    (r1, e1, c1), (r2, e2, c2) = runs
    cm = harness.client_mod()
    if e1 is not None:
        if isinstance(e1, cm.ModelNotEnoughSubunitsException):
            out["counters"]["not_enough_units"] = 1
        else:
            out["counters"]["base_run_raised"] = 1
            out["sets"]["raised"] = [est + ":" + harness.exc_info(e1)["type"] + ":" + harness.exc_info(e1)["where"][-70:]]
        return out
    if e2 is not None:
        info = harness.exc_info(e2)
        V(f"C11/{est}/run-fails-with-unexpected-unit/{info['type']}/{cls}", f"extra units {[e['geographic_unit_fips'] for e in extras]} "
          f"({kinds}), aggregates={call['aggregates']}: {info['type']}: {info['msg']} at {info['where'][-90:]}",
          extras=extras, exc=info)
        out["inputs"] = _inputs(el, feed, feed2, call, extras)
        return out
    out["counters"]["pairs"] = 1
    out["counters"][f"pairs_{est}"] = 1
    FLOAT_TOL["on"] = est == "bootstrap"
    keymap = ref.unit_key_map(el, feed2)
    estimands = call["estimands"]
    alphas = call["prediction_intervals"]

    def val(e, estimand):
        return dict(turnout=e["results_turnout"], dem=e["results_dem"], gop=e["results_gop"],
                    margin=e["results_dem"] - e["results_gop"])[estimand]

    # bootstrap: draws identical --------------------------------------------------------------------------------
    if est == "bootstrap":
        for nm in ("errors_B_1", "errors_B_2", "errors_B_3", "errors_B_4", "weighted_yz_test_pred", "weighted_z_test_pred"):
            a, b = np.asarray(getattr(c1.model, nm)), np.asarray(getattr(c2.model, nm))
            if a.shape != b.shape or not np.allclose(a, b, rtol=1e-11, atol=1e-9, equal_nan=True):
                mech = ("state-without-baseline" if special else
                        ("district-set-changes" if "district-set-changes" in cls else "/".join(kinds)))
                V(f"C11/bootstrap/draws-depend-on-unexpected-unit/{mech}", f"model.{nm} differs between the two runs: "
                  f"the bootstrap draws of units that did not change depend on the extra units "
                  f"{[e['geographic_unit_fips'] for e in extras]} ({cls})", extras=extras)
                out["counters"]["pairs"] = 1
                out["counters"]["pairs_bootstrap"] = 1
                out["inputs"] = _inputs(el, feed, feed2, call, extras)
                out["sets"]["classes"] = [[est, cls]]
                return out  # every other difference is a consequence of the changed draws
            if not np.array_equal(a, b, equal_nan=True):
                out["counters"]["draws_equal_up_to_rounding_only"] = 1
    # unit table ------------------------------------------------------------------------------------------------
    u1 = {r["geographic_unit_fips"]: r for r in tablecheck.unit_rows(r1, c1, estimands)[0]}
    u2 = {r["geographic_unit_fips"]: r for r in tablecheck.unit_rows(r2, c2, estimands)[0]}
    ex_ids = {e["geographic_unit_fips"]: e for e in extras}
    if set(u2) - set(u1) != set(ex_ids) or set(u1) - set(u2):
        V(f"C11/{est}/unit-rows/{cls}", f"unit ids added {sorted(set(u2) - set(u1))[:4]} removed "
          f"{sorted(set(u1) - set(u2))[:4]}, expected exactly {sorted(ex_ids)}")
    for f, e in ex_ids.items():
        r = u2.get(f)
        if r is None:
            continue
        if r.get("unit_category") != "unexpected" or r.get("reporting") != 0:
            V(f"C11/{est}/extra-unit-category", f"unit {f}: category {r.get('unit_category')} reporting {r.get('reporting')}")
        for es in estimands:
            v = val(e, es)
            for c in [f"pred_{es}", f"results_{es}"] + [f"{b}_{a}_{es}" for a in alphas for b in ("lower", "upper")]:
                if r.get(c) != v:
                    V(f"C11/{est}/extra-unit-values", f"unit {f}: {c}={r.get(c)} != its counted {v}")
                    break
    for f, r in u1.items():
        r2_ = u2.get(f)
        if r2_ is not None and any(not _eq(r[c], r2_.get(c)) for c in r):
            cols = [c for c in r if not _eq(r[c], r2_.get(c))]
            V(f"C11/{est}/other-unit-changed/{cls}", f"unit {f} changed in {cols[:4]}: {[r[c] for c in cols[:3]]} -> "
              f"{[r2_.get(c) for c in cols[:3]]}")
            break
    # aggregate tables --------------------------------------------------------------------------------------------
    got_votes = compared_other = created = 0
    for name in r1:
        if name not in ref.LEVEL_OF:
            continue
        t1, t2 = r1[name], r2[name]
        keys = ref.table_keys(t1)
        rows1 = {tuple(r[c] for c in keys): r for r in ref.rows(t1)}
        rows2 = {tuple(r[c] for c in keys): r for r in ref.rows(t2)}
        delta = {}
        if "county_classification" not in keys:
            for e in extras:
                km = keymap[e["geographic_unit_fips"]]
                k = tuple(km[c] for c in keys)
                delta.setdefault(k, []).append(e)
        lvl = name
        new_keys = set(rows2) - set(rows1)
        want_new = {k for k in delta if k not in rows1}
        if new_keys != want_new or set(rows1) - set(rows2):
            V(f"C11/{est}/{lvl}/group-set/{cls}", f"{name}: new groups {sorted(new_keys)[:3]} (expected "
              f"{sorted(want_new)[:3]}), lost groups {sorted(set(rows1) - set(rows2))[:3]}")
        created += len(want_new & new_keys)
        for k, row2 in rows2.items():
            row1 = rows1.get(k)
            es_list = delta.get(k, [])
            if not es_list:
                if row1 is None:
                    continue
                compared_other += 1
                if any(not _eq(row1[c], row2[c]) for c in row1):
                    cols = [c for c in row1 if not _eq(row1[c], row2[c])]
                    V(f"C11/{est}/{lvl}/other-group-changed/{cls}", f"{name}{k} received no extra unit but {cols[:4]} "
                      f"changed: {[row1[c] for c in cols[:3]]} -> {[row2[c] for c in cols[:3]]}")
                    break
                continue
            got_votes += row1 is not None
            if est in ("nonparametric", "gaussian"):
                for es in estimands:
                    v = sum(val(e, es) for e in es_list)
                    for c in [f"pred_{es}", f"results_{es}"] + [f"{b}_{a}_{es}" for a in alphas for b in ("lower", "upper")]:
                        before = row1[c] if row1 is not None else 0
                        if row2[c] != before + v:
                            V(f"C11/{est}/{lvl}/votes-not-added/{cls}", f"{name}{k}: {c} {before} -> {row2[c]} but the "
                              f"extra units carry {v}")
                            break
                if row1 is not None and row1["reporting"] != row2["reporting"]:
                    V(f"C11/{est}/{lvl}/reporting-changed", f"{name}{k}: reporting {row1['reporting']} -> {row2['reporting']}")
            else:
                two = sum(e["results_dem"] + e["results_gop"] for e in es_list)
                mg = sum(e["results_dem"] - e["results_gop"] for e in es_list)
                pt1 = row1["pred_turnout"] if row1 is not None else 0.0
                pm1 = row1["pred_margin"] * pt1 if row1 is not None else 0.0
                rm1 = row1["results_margin"] * pt1 if row1 is not None else 0.0
                pt2 = row2["pred_turnout"]
                if not ref.close(pt2, pt1 + two, rel=1e-9, abs_=1e-6):
                    V(f"C11/bootstrap/{lvl}/turnout-not-added/{cls}", f"{name}{k}: pred_turnout {pt1} -> {pt2}, extra "
                      f"two-party votes {two}")
                elif pt2 != 0:
                    if not ref.close(row2["pred_margin"] * pt2, pm1 + mg, rel=1e-9, abs_=1e-6):
                        V(f"C11/bootstrap/{lvl}/margin-not-added/{cls}", f"{name}{k}: pred_margin*turnout {pm1} -> "
                          f"{row2['pred_margin'] * pt2}, extra margin {mg}")
                    if not ref.close(row2["results_margin"] * pt2, rm1 + mg, rel=1e-9, abs_=1e-6):
                        V(f"C11/bootstrap/{lvl}/results-margin-not-added/{cls}", f"{name}{k}: results_margin*turnout "
                          f"{rm1} -> {row2['results_margin'] * pt2}, extra margin {mg}")
    if est == "bootstrap":
        o2, _ = tablecheck.bootstrap_interval_reference(el, feed2, call, r2, c2, keymap)
        for v in o2:
            v["key"] = v["key"].replace("C02/", "C11/") + f"/{cls}"
            out["violations"].append(v)
    out["counters"]["groups_that_received_votes"] = got_votes
    out["counters"]["other_groups_compared"] = compared_other
    out["counters"]["groups_created"] = created
    out["nontrivial"] = bool(got_votes and compared_other)
    out["sig"] = [est, bool(el.district), kinds, len([a for a in call["aggregates"] if a != "unit"]),
                  "county_classification" in call["aggregates"], bool(created)]
    out["sets"]["classes"] = [[est, cls]]
    if out["violations"]:
        out["inputs"] = _inputs(el, feed, feed2, call, extras)
    if spec["i"] % 43 == 0:
        out["sample"] = gen.jsonable(dict(election=el.meta, call=call, extras=extras, groups_that_received_votes=got_votes,
                                          groups_created=created, other_groups_compared=compared_other))
    return out


FLOAT_TOL = {"on": False}


def _warm_client(el, feed2, call, extras, est):
    import copy

    cm = harness.client_mod()
    warm = copy.deepcopy(el)
    rows = []
    for e in extras:
        same = warm.pre[warm.pre.postal_code == e["postal_code"]]
        if not len(same):
            continue
        r = same.iloc[0].copy()
        f = e["geographic_unit_fips"]
        parts = f.split("_")
        r["geographic_unit_fips"] = f
        if el.district and len(parts) >= 2:
            r["district"], r["county_fips"] = type(r["district"])(parts[0]), parts[1]
        elif el.geo_type == "county":
            r["county_fips"] = f
        else:
            r["county_fips"] = parts[0]
        rows.append(r)
    if rows:
        warm.pre = pd.concat([warm.pre, pd.DataFrame(rows)]).reset_index(drop=True)
        for c in el.pre.columns:
            try:
                warm.pre[c] = warm.pre[c].astype(el.pre[c].dtype)
            except (TypeError, ValueError):
                pass
    client = cm.ModelClient()
    with harness.patched() as p:
        if est == "gaussian":
            harness.fast_boot_sigma(p)
        harness.run_estimates(warm, feed2, call, client=client)  # outcome not judged: it only gives the client a past
    return client


def _eq(a, b):
    if isinstance(a, float) and isinstance(b, float):
        if a != a and b != b:
            return True
        if FLOAT_TOL["on"] and a != b:
            # bootstrap columns are produced by matrix products whose shape changes with the extra unit: the last
            # bits may differ although no number changed in the sense of the property
            return abs(a - b) <= 1e-10 * max(1.0, abs(a), abs(b))
    return a == b


def _inputs(el, feed, feed2, call, extras):
    m = gen.materialise(el, feed, call)
    m.update(feed2_csv=feed2.to_csv(index=False), extras=extras)
    return m


def finalize(agg):
    c = agg["counters"]
    for est in ("nonparametric", "gaussian", "bootstrap"):
        if c.get(f"pairs_{est}", 0) < 5:
            return f"only {c.get(f'pairs_{est}', 0)} judged pairs for {est}", {}
    if not c.get("groups_created"):
        return "no pair created a new group", {}
    return None, {}
