"""C10 - outstanding and excluded units cannot influence anyone else's estimate."""
import copy
import json
import os
import shutil
import tempfile

import numpy as np

from .. import cases as cases_mod
from .. import gen, harness
from .. import reference as ref

PROPERTY = "C10"
LEVEL = "exploration"
RULE = ("two-run monitor: the same generated election (three estimators, features and fixed effects on, centring on, "
        "outlier models on and off) is run twice, the second time with different counts for exactly one victim unit "
        "(a nonreporting unit kept below the threshold, a unit blocklisted by id or through its state, a zero-baseline "
        "unit, an unexpected unit); "
        "all unit rows except the victim's and all group rows not containing it must be bit-identical, and so must the "
        "SEQUENCE of input digests (sha1 of x, y, weights, taus) of every QuantileRegressionSolver.fit / "
        "OLSRegressionSolver.fit call. Historical clause: HistoricalModelClient.get_historical_evaluation is run from "
        "local config/ and data/ files in a scratch directory, twice, with the historical results of the not-yet-"
        "reporting units perturbed; the 'estimates' tables must be bit-identical. Non-trivial: pair in which the "
        "perturbation changed the victim's own row; distinct = (estimator, victim kind, outlier models, office kind, "
        "features?, fixed effects?)")
ASSUMPTIONS = ["gaussian runs use the real boot_sigma with 300 resamples (seeded by the model's seed setting)",
               "for groups containing the victim only the reporting count is required to be unchanged here (C02 ties "
               "their other columns to the unit rows)"]
BATCH = {"quick": 4, "thorough": 15}
BUDGET = {"quick": 150, "thorough": 1500}
MIN_NONTRIVIAL = {"quick": 15, "thorough": 40}
N = {"quick": 150, "thorough": 4000}
N_HIST = {"quick": 12, "thorough": 200}
KINDS = ["nonreporting", "blocklisted", "zero_baseline", "unexpected", "state_blocklisted"]


def cases(tier, seed):
    out = [dict(part="pair", seed=seed, i=i) for i in range(N[tier])]
    out += [dict(part="hist", seed=seed, i=600000 + i) for i in range(N_HIST[tier])]
    return out


class SolverLog:
    def __init__(self):
        self.events = []

    def install(self, p):
        harness.client_mod()
        from elexsolver.OLSRegressionSolver import OLSRegressionSolver
        from elexsolver.QuantileRegressionSolver import QuantileRegressionSolver

        log = self

        def before_q(args, kwargs):
            a = list(args[1:])
            kw = dict(zip(["x", "y", "taus", "weights"], a))
            kw.update(kwargs)
            log.events.append(("qr", harness.digest(kw.get("x")), harness.digest(kw.get("y")),
                               harness.digest(kw.get("weights")), harness.digest(np.asarray(kw.get("taus", 0.5)))))

        def before_o(args, kwargs):
            a = list(args[1:])
            kw = dict(zip(["x", "y", "weights", "lambda_", "normal_eqs"], a))
            kw.update(kwargs)
            log.events.append(("ols", harness.digest(kw.get("x")), harness.digest(kw.get("y")),
                               harness.digest(kw.get("weights")), harness.digest(np.asarray(kw.get("lambda_", 0.0)))))

        p.wrap(QuantileRegressionSolver, "fit", before=before_q)
        p.wrap(OLSRegressionSolver, "fit", before=before_o)


def run_case(spec, inputs=None):
    return run_pair(spec, inputs) if spec["part"] == "pair" else run_hist(spec)


def build(spec):
    i = spec["i"]
    rng = gen.rng_for(spec["seed"], PROPERTY, i, salt=2)
    kind = KINDS[i % 5]
    est = ["nonparametric", "gaussian", "bootstrap"][(i // 5) % 3]
    o = dict(estimator=est, el_n_units=int(rng.integers(50, 140)), el_n_zero_baseline=2, feed_n_unexpected=2,
             allow_pointer_config=False,
             feed_frac_reporting=0.6, feed_p_partial=0.8, must_aggregates=["postal_code", "unit", "county_fips"],
             feed_unexpected_kinds=["known_county", "unknown_county"], B=10)
    if kind == "state_blocklisted":
        o["el_n_states"] = int(rng.integers(2, 5))
    if est == "gaussian" and kind == "nonreporting":
        # counties of very different size: some hold enough calibration units for their own gaussian model, others
        # fall back to their state, so that group-wise and fallback rows are mixed in one aggregate
        o.update(el_n_units=int(rng.integers(150, 350)), el_county_size_spread=1.0, el_counties_per_state=int(rng.integers(3, 7)))
    if (i // 15) % 3 == 1:
        # all counts of the election sit just below a machine-integer boundary (tiny precincts: 127, mid-size counties:
        # 32767) and the feed arrives as the documented list of lists, so that the victim's new count is the only one
        # above it: any narrowing of the numeric type by the largest value of a column becomes visible
        tiny = (i // 45) % 2 == 0
        o.update(el_size_range=(50, 110) if tiny else (16000, 31000), feed_unexpected_max=100 if tiny else 30000,
                 feed_as_lists=True, feed_float_counts=False, el_tiny_county=False, el_n_zero_baseline=1,
                 el_noise_scale=0.05)
    el, feed, status, call = cases_mod.build(spec["seed"], PROPERTY, i, o)
    mp = call["model_parameters"]
    if est != "bootstrap" and not call["features"]:
        call["features"] = ["x1"]
    # robust conformal correction together with a partial count far above the victim's own interval: whatever the
    # victim's count does to its own bounds, the (shared) correction of the other units must not move
    force_big = est == "nonparametric" and kind == "nonreporting" and (i // 15) % 2 == 0
    if force_big:
        mp["robust"] = True
    outl = bool(rng.random() < 0.6)
    mp["fit_turnout_outlier_model"] = outl
    mp["fit_margin_outlier_model"] = outl
    thr = call["percent_reporting_threshold"]
    base = el.pre.set_index("geographic_unit_fips")
    # pick the victim
    victim = None
    if kind == "nonreporting":
        cand = [f for f, s in status.items() if s in ("partial", "zero") and base.loc[f, "baseline_turnout"] > 0
                and f not in mp.get("unit_blocklist", [])]
    elif kind == "blocklisted":
        cand = [f for f, s in status.items() if s in ("full", "partial") and f in base.index]
    elif kind == "state_blocklisted":
        cand = [f for f, s in status.items() if s == "full" and f in base.index]
    elif kind == "zero_baseline":
        cand = [f for f, s in status.items() if f in base.index and base.loc[f, "baseline_turnout"] == 0
                and s != "missing"]
    else:
        cand = [f for f, s in status.items() if s == "unexpected"]
    if cand:
        victim = cand[int(rng.integers(0, len(cand)))]
        if kind == "blocklisted":
            mp["unit_blocklist"] = list(mp.get("unit_blocklist", [])) + [victim]
        if kind == "state_blocklisted":
            mp["postal_code_blocklist"] = [str(base.loc[victim, "postal_code"])]
    feed2 = feed.copy(deep=True)
    if victim is not None:
        j = feed2.index[feed2.geographic_unit_fips == victim][0]
        t, d, g = [float(feed2.loc[j, c]) for c in ("results_turnout", "results_dem", "results_gop")]
        f1, f2, f3 = rng.uniform(0.3, 2.5), rng.uniform(0.3, 2.5), rng.uniform(0.3, 2.5)
        if (rng.random() < 0.4) or force_big:  # a partial count far above anything the model predicts (binding floors in its groups)
            big = float(rng.uniform(8, 30))
            f1, f2, f3 = f1 * big, f2 * big, f3 * big
            base_t = float(el.pre.set_index("geographic_unit_fips").baseline_turnout.get(victim, 100) or 100)
            t, d, g = max(t, base_t), max(d, base_t * 0.5), max(g, base_t * 0.4)
        nd, ng = int(d * f1 + rng.integers(1, 40)), int(g * f2 + rng.integers(1, 40))
        nt = max(int(t * f3), nd + ng) + int(rng.integers(0, 20))
        feed2.loc[j, ["results_turnout", "results_dem", "results_gop"]] = [nt, nd, ng]
        if kind == "nonreporting" and thr > 1:
            feed2.loc[j, "percent_expected_vote"] = float(rng.integers(0, int(thr)))  # still below the threshold
    return el, feed, feed2, status, call, victim, kind


def tables(res, client, estimands):
    t = dict(res)
    return t


def run_pair(spec, inputs=None):
    if inputs is not None:
        el, feed, call = gen.dematerialise(inputs)
        feed2 = gen._read(inputs["feed2_csv"], inputs["feed_dtypes"])
        victim, kind, status = inputs["victim"], inputs["kind"], {}
    else:
        el, feed, feed2, status, call, victim, kind = build(spec)
    est = call["pi_method"]
    out = dict(violations=[], counters={}, sets={}, nontrivial=False)
    if victim is None:
        out["counters"]["no_victim_available"] = 1
        return out

    def V(key, msg, **w):
        if len(out["violations"]) < 10:
            out["violations"].append(dict(key=key, msg=msg, witness=w))

    runs = []
    for fd in (feed, feed2):
        log = SolverLog()
        with harness.patched() as p:
            log.install(p)
            if est == "gaussian":
                harness.fast_boot_sigma(p)
            res, exc, client = harness.run_estimates(el, fd, call, want_client=True)
        runs.append((res, exc, log.events))
    (r1, e1, ev1), (r2, e2, ev2) = runs
    cm = harness.client_mod()
    if e1 is not None or e2 is not None:
        if type(e1) is type(e2):
            if isinstance(e1, cm.ModelNotEnoughSubunitsException):
                out["counters"]["not_enough_units"] = 1
            else:
                out["counters"]["both_runs_raised"] = 1
                out["sets"]["raised"] = [est + ":" + harness.exc_info(e1)["type"] + ":" + harness.exc_info(e1)["where"][-70:]]
            return out
        V(f"C10/{est}/{kind}/one-run-fails", f"victim {victim}: run 1 -> {type(e1).__name__ if e1 else 'ok'}, run 2 -> "
          f"{type(e2).__name__ if e2 else 'ok'}")
        out["inputs"] = _inputs(el, feed, feed2, call, victim, kind)
        return out
    out["counters"]["pairs"] = 1
    out["counters"][f"pairs_{est}"] = 1
    outl = "outlier-models-on" if call["model_parameters"].get("fit_turnout_outlier_model") else "outlier-models-off"
    keymap = ref.unit_key_map(el, feed)
    vk = keymap[victim]
    # (c) solver inputs
    if ev1 != ev2:
        k = next((j for j, (a, b) in enumerate(zip(ev1, ev2)) if a != b), min(len(ev1), len(ev2)))
        which = ev1[k][0] if k < len(ev1) else "count"
        parts = [n for n, a, b in zip(("kind", "x", "y", "weights", "taus"), ev1[k], ev2[k]) if a != b] if k < min(
            len(ev1), len(ev2)) else ["number-of-calls"]
        V(f"C10/{est}/{kind}/solver-input-depends-on-victim/{outl}", f"victim {victim} ({kind}): solver call #{k} "
          f"({which}) of {len(ev1)}/{len(ev2)} has different {parts}", call_index=k)
    out["counters"]["solver_calls_compared"] = len(ev1)
    # (a) other rows
    changed_own = False
    for name in r1:
        t1, t2 = r1[name], r2.get(name)
        if t2 is None or list(t1.columns) != list(t2.columns) or len(t1) != len(t2):
            V(f"C10/{est}/{kind}/table-shape-changed", f"{name}: shape/columns differ between the two runs")
            continue
        rows1, rows2 = ref.rows(t1), ref.rows(t2)
        keys = ["geographic_unit_fips"] if name == "unit_data" else ref.table_keys(t1)
        for a, b in zip(rows1, rows2):
            ka = tuple(a[c] for c in keys)
            if ka != tuple(b[c] for c in keys):
                V(f"C10/{est}/{kind}/row-order-changed", f"{name}: rows differ in key order")
                break
            if name == "unit_data":
                contains = (a["geographic_unit_fips"] == victim)
            else:
                contains = all(vk.get(c) == a[c] for c in keys) and not (
                    "county_classification" in keys and kind != "nonreporting")
                if "county_classification" in keys and kind == "nonreporting":
                    contains = all((vk.get(c) == a[c]) for c in keys)
            same = all(_eq(a[c], b[c]) for c in t1.columns)
            if contains:
                if not same:
                    changed_own = True
                if a.get("reporting") != b.get("reporting"):
                    V(f"C10/{est}/{kind}/reporting-count-changed", f"{name}{ka}: reporting {a.get('reporting')} -> "
                      f"{b.get('reporting')}")
            elif not same:
                cols = [c for c in t1.columns if not _eq(a[c], b[c])]
                V(f"C10/{est}/{kind}/other-row-changed/{name}/{outl}", f"victim {victim} ({kind}) changed "
                  f"{name}{ka} columns {cols[:4]}: {[a[c] for c in cols[:3]]} -> {[b[c] for c in cols[:3]]}",
                  table=name, row=ka, columns=cols[:6])
                break
    out["nontrivial"] = changed_own
    out["sig"] = [est, kind, outl, bool(el.district), bool(call["features"]), bool(call["fixed_effects"])]
    if out["violations"]:
        out["inputs"] = _inputs(el, feed, feed2, call, victim, kind)
    if spec["i"] % 31 == 0:
        out["sample"] = gen.jsonable(dict(part="pair", election=el.meta, call=call, victim=victim, kind=kind,
                                          victim_row_before=feed[feed.geographic_unit_fips == victim],
                                          victim_row_after=feed2[feed2.geographic_unit_fips == victim],
                                          solver_calls=len(ev1)))
    return out


def _eq(a, b):
    if isinstance(a, float) and isinstance(b, float) and a != a and b != b:
        return True
    return a == b


def _inputs(el, feed, feed2, call, victim, kind):
    m = gen.materialise(el, feed, call)
    m.update(feed2_csv=feed2.to_csv(index=False), victim=victim, kind=kind)
    return m


# ---------------------------------------------------------------------------------------------------------------
# historical clause


def run_hist(spec):
    cm = harness.client_mod()
    out = dict(violations=[], counters={}, sets={}, nontrivial=False)
    i = spec["i"]
    rng = gen.rng_for(spec["seed"], PROPERTY, i, salt=12)
    est = ["nonparametric", "gaussian"][i % 2]
    estimands = [["turnout"], ["dem"], ["turnout", "dem"]][i % 3]
    o = dict(estimator=est, district=False, el_n_units=int(rng.integers(40, 90)), el_n_zero_baseline=0,
             feed_n_unexpected=0, feed_n_missing=0, threshold=100, policy="drop", estimands=estimands,
             feed_frac_reporting=0.6, feed_p_partial=0.5, feed_p_strange=0.0, feed_boundary=False,
             aggregates=["postal_code", "county_fips"], alphas=[0.7, 0.9], fixed_effects={},
             mp=dict(fit_turnout_outlier_model=False, fit_margin_outlier_model=False))
    el, feed, status, call = cases_mod.build(spec["seed"], PROPERTY, i, o)
    call["model_parameters"].pop("unit_blocklist", None)
    call["model_parameters"].pop("postal_code_blocklist", None)
    hist_id = "2026-11-03_USA_G"
    cfg = copy.deepcopy(el.config)
    cfg[el.election_id][0]["historical_election"] = [hist_id]
    hist_cfg = {hist_id: copy.deepcopy(el.config[el.election_id])}
    # historical preprocessed data: same units, with historical results columns
    hist = el.pre.copy()
    tr = el.truth.set_index("geographic_unit_fips")
    for c in ("turnout", "dem", "gop"):
        hist[f"results_{c}"] = [int(tr.loc[f, c] * 0.9) + 3 for f in hist.geographic_unit_fips]
    nonrep = [f for f, s in status.items() if s in ("partial", "zero")]
    if not nonrep:
        out["counters"]["hist_no_nonreporting"] = 1
        return out
    hist2 = hist.copy()
    mask = hist2.geographic_unit_fips.isin(nonrep)
    for c in ("turnout", "dem", "gop"):
        hist2.loc[mask, f"results_{c}"] = (hist2.loc[mask, f"results_{c}"] * rng.uniform(0.2, 3.0, size=int(mask.sum()))
                                           ).astype(int) + 7
    if i % 3 != 0 and int(mask.sum()):
        # the hidden result of an outstanding unit may also be MISSING (an empty cell of the historical file) or not
        # finite: it is hidden all the same
        js = hist2.index[mask][: 1 + i % 2]
        col = f"results_{estimands[0]}"
        hist2[col] = hist2[col].astype(float)
        hist[col] = hist[col].astype(float)  # same column type in both files: only the hidden VALUES differ
        hist2.loc[js, col] = [float("nan"), float("inf")][(i // 3) % 2]
        out["counters"]["hist_hidden_value_not_finite"] = 1
    if i % 2 == 1:
        # the live feed also lists a unit the historical file does not know (a new precinct), somewhere in the middle:
        # which rows are hidden is decided unit by unit, not by position
        import pandas as _pd

        j_ = int(rng.integers(1, max(2, len(feed) - 1)))
        new_row = feed.iloc[[j_]].copy()
        new_row["geographic_unit_fips"] = "10001_9" + str(int(rng.integers(10, 99)))
        feed = _pd.concat([feed.iloc[:j_], new_row, feed.iloc[j_:]]).reset_index(drop=True)
        out["counters"]["hist_feed_with_unknown_unit"] = 1
    cwd0 = os.getcwd()
    digests = []
    scratch = tempfile.mkdtemp(prefix="verif_c10_")
    try:
        os.makedirs(os.path.join(scratch, "config"))
        with open(os.path.join(scratch, "config", f"{el.election_id}.json"), "w") as f:
            json.dump(cfg, f)
        with open(os.path.join(scratch, "config", f"{hist_id}.json"), "w") as f:
            json.dump(hist_cfg, f)
        ddir = os.path.join(scratch, "data", hist_id, el.office)
        os.makedirs(ddir)
        os.chdir(scratch)
        for h in (hist, hist2):
            h.to_csv(os.path.join(ddir, f"data_{el.geo_type}.csv"), index=False)
            client = cm.HistoricalModelClient()
            with harness.patched() as p:
                if est == "gaussian":
                    harness.fast_boot_sigma(p)
                try:
                    r = client.get_historical_evaluation(
                        feed.copy(deep=True), el.election_id, el.office, list(estimands), [0.7, 0.9], 100, el.geo_type,
                        features=list(call["features"]), aggregates=["postal_code", "county_fips"], fixed_effects={},
                        pi_method=est, save_output=[], model_parameters=copy.deepcopy(call["model_parameters"]))
                    digests.append((harness.results_digest(r[hist_id]["estimates"]), None, r[hist_id]["estimates"]))
                except Exception as e:  # noqa: BLE001
                    import traceback

                    e._verif_tb = traceback.format_exc()
                    digests.append((None, e, None))
    finally:
        os.chdir(cwd0)
        shutil.rmtree(scratch, ignore_errors=True)
    (d1, e1, t1), (d2, e2, t2) = digests
    if e1 is not None or e2 is not None:
        if isinstance(e1, cm.ModelNotEnoughSubunitsException) and isinstance(e2, cm.ModelNotEnoughSubunitsException):
            out["counters"]["hist_not_enough_units"] = 1
            return out
        if e1 is not None and e2 is not None and type(e1) is type(e2):
            out["counters"]["hist_both_raised"] = 1
            out["sets"]["raised"] = ["hist:" + harness.exc_info(e1)["type"] + ":" + harness.exc_info(e1)["where"][-70:]
                                     + ":" + harness.exc_info(e1)["msg"][:80]]
            return out
        out["violations"].append(dict(key=f"C10/historical/{est}/one-run-fails", msg=f"{type(e1).__name__ if e1 else 'ok'}"
                                      f" vs {type(e2).__name__ if e2 else 'ok'}", witness={}))
        return out
    out["counters"]["hist_pairs"] = 1
    if d1 != d2:
        diff = sorted(k for k in d1 if d1[k] != d2.get(k))
        detail = ""
        for k in diff[:1]:
            a, b = t1[k], t2[k]
            cols = [c for c in a.columns if not a[c].equals(b[c])]
            detail = f"{k} columns {cols[:4]}"
        out["violations"].append(dict(key=f"C10/historical/{est}/estimates-depend-on-hidden-results/{'+'.join(estimands)}",
                                      msg=f"historical estimates differ in {diff} ({detail}) after perturbing only the "
                                          f"historical results of {len(nonrep)} not-yet-reporting units",
                                      witness=dict(tables=diff, estimands=estimands)))
    out["nontrivial"] = True
    out["sig"] = ["hist", est, estimands]
    if spec["i"] % 5 == 0:
        out["sample"] = gen.jsonable(dict(part="historical", election=el.meta, estimator=est, estimands=estimands,
                                          perturbed_units=len(nonrep), digest=d1))
    return out


def finalize(agg):
    c = agg["counters"]
    for est in ("nonparametric", "gaussian", "bootstrap"):
        if c.get(f"pairs_{est}", 0) < 5:
            return f"only {c.get(f'pairs_{est}', 0)} judged pairs for {est}", {}
    if not c.get("hist_pairs"):
        return "historical clause never judged", {}
    return None, {}
