"""Orchestration shared by all checks: sharding over worker subprocesses, verdicts, known findings, evidence.

A check module (vlib/checks/cXX.py) provides
    PROPERTY, LEVEL, RULE, ASSUMPTIONS, BATCH (cases per worker process), MIN_NONTRIVIAL
    cases(tier, seed)      -> list of small JSON-able specs
    run_case(spec)         -> result dict (see below); executed inside a worker process
    finalize(agg)          -> (inconclusive_reason or None, extra coverage dict)          [optional]

result dict keys (all optional except violations):
    violations : [ {key, msg, witness} ]      key = mechanism key used to match KNOWN_FINDINGS.json
    sig        : list identifying the case class (for distinct_nontrivial)
    sigs       : alternatively, a list of signatures of the non-trivial sub-cases judged inside this case
    nontrivial : bool
    counters   : {name: int}      summed over cases
    sets       : {name: [items]}  unioned over cases, reported as distinct counts (+ a few members)
    sample     : JSON-able description of the case (a few are kept)
    inputs     : materialised inputs (kept only for cases with violations -> replay file)
    inconclusive : reason string when the case could not be judged
"""
import concurrent.futures as cf
import json
import os
import shutil
import subprocess
import sys
import tempfile
import time

VERIF_DIR = os.path.dirname(os.path.dirname(os.path.abspath(__file__)))
PY = sys.executable
NPROC = int(os.environ.get("VERIF_JOBS", os.cpu_count() or 4))

EXIT_OK, EXIT_VIOLATION, EXIT_INCONCLUSIVE = 0, 1, 2


def load_known():
    path = os.path.join(VERIF_DIR, "KNOWN_FINDINGS.json")
    if not os.path.exists(path):
        return []
    with open(path) as f:
        return json.load(f)["findings"]


def _worker_env():
    e = dict(os.environ)
    e["PYTHONPATH"] = VERIF_DIR + os.pathsep + e.get("PYTHONPATH", "")
    e.setdefault("PYTHONHASHSEED", "0")
    for v in ("OMP_NUM_THREADS", "OPENBLAS_NUM_THREADS", "MKL_NUM_THREADS", "NUMEXPR_NUM_THREADS"):
        e[v] = "1"
    return e


def _run_batch(modname, specs, tmpdir, bi, timeout, extra_env=None):
    inp = os.path.join(tmpdir, f"in_{bi}.json")
    out = os.path.join(tmpdir, f"out_{bi}.jsonl")
    with open(inp, "w") as f:
        json.dump(specs, f)
    e = _worker_env()
    if extra_env:
        e.update(extra_env)
    t0 = time.time()
    status = "ok"
    try:
        p = subprocess.run(
            [PY, "-m", "vlib.worker", modname, inp, out],
            cwd=VERIF_DIR, env=e, timeout=timeout, stdout=subprocess.PIPE, stderr=subprocess.PIPE,
        )
        if p.returncode != 0:
            status = f"worker exit {p.returncode}: {p.stderr.decode(errors='replace')[-800:]}"
    except subprocess.TimeoutExpired:
        status = "watchdog"
    results = []
    if os.path.exists(out):
        with open(out) as f:
            for ln in f:
                ln = ln.strip()
                if ln:
                    try:
                        results.append(json.loads(ln))
                    except json.JSONDecodeError:
                        pass
    for p_ in (inp, out):
        try:
            os.remove(p_)
        except OSError:
            pass
    return bi, results, status, time.time() - t0


SLOWEST = []


def run_check(mod, tier, seed, replay=None, budget_s=None):
    prop = mod.PROPERTY
    t0 = time.time()
    os.makedirs(_evidence_dir(), exist_ok=True)
    if replay:
        return _replay(mod, replay)
    specs = mod.cases(tier, seed)
    for i, s in enumerate(specs):
        s.setdefault("_i", i)
    # deterministic shuffle: when the wall-clock budget ends a run early, every part of the workload (and every
    # statistical cell) has been served evenly instead of the tail being cut off
    import random

    random.Random(int(seed) * 7919 + 13).shuffle(specs)
    batch = getattr(mod, "BATCH", 10)
    if isinstance(batch, dict):
        batch = batch[tier]
    batches = [specs[i:i + batch] for i in range(0, len(specs), batch)]
    budget = budget_s or getattr(mod, "BUDGET", {"quick": 150, "thorough": 1500})[tier]
    per_batch_timeout = getattr(mod, "BATCH_TIMEOUT", 900)
    tmpdir = tempfile.mkdtemp(prefix=f"verif_{prop}_")
    results, problems = [], []
    stopped_by = "cases"
    done_cases = 0
    try:
        with cf.ThreadPoolExecutor(max_workers=NPROC) as ex:
            pending = {}
            it = iter(enumerate(batches))
            exhausted = False

            def submit_next():
                nonlocal exhausted, stopped_by
                if exhausted:
                    return False
                if time.time() - t0 > budget:
                    exhausted = True
                    stopped_by = "time"
                    return False
                try:
                    bi, b = next(it)
                except StopIteration:
                    exhausted = True
                    return False
                fut = ex.submit(_run_batch, mod.__name__, b, tmpdir, bi, per_batch_timeout,
                                getattr(mod, "WORKER_ENV", None))
                pending[fut] = (bi, b)
                return True

            for _ in range(NPROC):
                if not submit_next():
                    break
            while pending:
                done, _ = cf.wait(list(pending), return_when=cf.FIRST_COMPLETED)
                for fut in done:
                    bi, b = pending.pop(fut)
                    _, res, status, _dt = fut.result()
                    SLOWEST.append((round(_dt, 1), [sp.get("i") for sp in b][:4]))
                    results.extend(res)
                    done_cases += len(res)
                    if status != "ok":
                        missing = len(b) - len(res)
                        problems.append(dict(batch=bi, status=status, unjudged_cases=missing,
                                             next_spec=b[len(res)] if missing > 0 else None))
                    submit_next()
    finally:
        shutil.rmtree(tmpdir, ignore_errors=True)
    return _conclude(mod, tier, seed, specs, results, problems, stopped_by, t0)


def _conclude(mod, tier, seed, specs, results, problems, stopped_by, t0):
    prop = mod.PROPERTY
    known = [k for k in load_known() if k.get("property") == prop and k.get("status") == "known"]
    known_keys = {k["key"]: k for k in known}
    counters, sets, sigs, samples = {}, {}, set(), []
    viol_unknown, viol_known = [], {}
    inconc_cases = []
    for r in results:
        for k, v in (r.get("counters") or {}).items():
            counters[k] = counters.get(k, 0) + int(v)
        for k, items in (r.get("sets") or {}).items():
            s = sets.setdefault(k, set())
            for it in items:
                s.add(json.dumps(it, sort_keys=True) if not isinstance(it, str) else it)
        if r.get("sigs"):  # a case made of several judged sub-cases (traces, histories, fault positions)
            for sg in r["sigs"]:
                sigs.add(json.dumps(sg, sort_keys=True))
        elif r.get("nontrivial"):
            sigs.add(json.dumps(r.get("sig"), sort_keys=True))
        if r.get("sample") is not None and len(samples) < 5:
            samples.append(r["sample"])
        if r.get("inconclusive"):
            inconc_cases.append(dict(spec=r.get("spec"), reason=r["inconclusive"]))
        for v in r.get("violations") or []:
            if v["key"] in known_keys:
                viol_known.setdefault(v["key"], []).append((r, v))
            else:
                viol_unknown.append((r, v))
    # replay files for unknown violations (first 10) -------------------------------------------------------------
    replay_paths = []
    rdir = os.path.join(os.environ.get("VERIF_REPLAY_DIR") or os.path.join(VERIF_DIR, "replays"), prop)
    if viol_unknown:
        os.makedirs(rdir, exist_ok=True)
    seen_keys = {}
    for r, v in viol_unknown:
        n = seen_keys.get(v["key"], 0)
        seen_keys[v["key"]] = n + 1
        if n >= 2 or len(replay_paths) >= 10:
            continue
        spec = r.get("spec") or {}
        name = f"{tier}_seed{seed}_case{spec.get('_i', 'x')}_{_slug(v['key'])}.json"
        path = os.path.join(rdir, name)
        with open(path, "w") as f:
            json.dump(dict(property=prop, tier=tier, seed=seed, spec=spec, violation=v,
                           inputs=r.get("inputs"), versions=_versions()), f, indent=1, default=str)
        replay_paths.append((v, path))
    # finalize / inconclusive ------------------------------------------------------------------------------------
    agg = dict(counters=counters, sets=sets, n_results=len(results), n_specs=len(specs), tier=tier,
               nontrivial=len(sigs))
    inconclusive, extra = None, {}
    if hasattr(mod, "finalize"):
        fin = mod.finalize(agg)
        inconclusive, extra = fin[0], fin[1]
        for v in (fin[2] if len(fin) > 2 else []):  # verdicts that only exist over the whole run (statistical)
            pseudo = dict(spec=dict(_i="run", finalize=True), inputs=v.get("witness"))
            if v["key"] in known_keys:
                viol_known.setdefault(v["key"], []).append((pseudo, v))
            else:
                viol_unknown.append((pseudo, v))
                name = f"{tier}_seed{seed}_run_{_slug(v['key'])}.json"
                os.makedirs(rdir, exist_ok=True)
                path = os.path.join(rdir, name)
                with open(path, "w") as f:
                    json.dump(dict(property=prop, tier=tier, seed=seed, spec=pseudo["spec"], violation=v,
                                   versions=_versions()), f, indent=1, default=str)
                replay_paths.append((v, path))
    unjudged = sum(p["unjudged_cases"] for p in problems) + len(inconc_cases)
    min_nt = getattr(mod, "MIN_NONTRIVIAL", {"quick": 2, "thorough": 2})
    if isinstance(min_nt, dict):
        min_nt = min_nt[tier]
    if inconclusive is None and len(sigs) < min_nt:
        inconclusive = f"only {len(sigs)} distinct non-trivial cases (< {min_nt})"
    if inconclusive is None and len(results) == 0:
        inconclusive = "no case was judged"
    if inconclusive is None and unjudged > max(3, 0.05 * max(1, len(results))):
        inconclusive = f"{unjudged} cases could not be judged (watchdog / worker crash)"
    wall = time.time() - t0
    coverage = dict(
        evaluations=len(results),
        distinct_nontrivial=len(sigs),
        rule=mod.RULE,
        samples=samples if samples else [dict(note="no sample produced")],
        planned_cases=len(specs),
        stopped_by=stopped_by,
        counters=counters,
        distinct={k: len(v) for k, v in sets.items()},
        distinct_members={k: sorted(v)[:40] for k, v in sets.items()},
        known_findings_hit={k: len(v) for k, v in viol_known.items()},
        unjudged=unjudged,
        worker_problems=problems[:5],
        inconclusive_cases=inconc_cases[:5],
        verdict=("violated" if viol_unknown else ("inconclusive" if inconclusive else "held")),
    )
    if getattr(mod, "EXHAUSTIVE", False) and stopped_by == "cases" and unjudged == 0:
        coverage["exhaustive"] = True
    coverage.update(extra or {})
    if inconclusive:
        coverage["inconclusive_reason"] = inconclusive
    coverage["repo"] = os.environ.get("VERIF_REPO", "/repo")
    coverage["repo_head"] = _repo_head(coverage["repo"])
    ev = dict(
        property_id=prop, tier=tier, seed=int(seed), level=mod.LEVEL, coverage=coverage,
        assumptions=list(getattr(mod, "ASSUMPTIONS", [])), wall_s=round(wall, 2),
        violations=len(viol_unknown),
    )
    _write_evidence(prop, ev)
    # report -----------------------------------------------------------------------------------------------------
    for key, lst in viol_known.items():
        print(f"KNOWN-FINDING: property={prop} {known_keys[key]['what']} [key={key}; {len(lst)} occurrence(s) this run]")
    print(f"{prop} {tier} seed={seed}: {len(results)}/{len(specs)} cases, {len(sigs)} distinct non-trivial, "
          f"{len(viol_unknown)} violation(s), {sum(len(v) for v in viol_known.values())} known, "
          f"{unjudged} unjudged, {wall:.1f}s, stopped_by={stopped_by}")
    if SLOWEST and os.environ.get("VERIF_TIMING"):
        print("  slowest batches (s, case indices):", sorted(SLOWEST, reverse=True)[:5])
    for k in sorted(counters):
        print(f"  counter {k} = {counters[k]}")
    for k in sorted(sets):
        print(f"  distinct {k} = {len(sets[k])}")
    if viol_unknown:
        kc = {}
        for _, v in viol_unknown:
            kc[v["key"]] = kc.get(v["key"], 0) + 1
        for k in sorted(kc):
            print(f"  violation-key {k} x{kc[k]}")
        shown = set()
        for v, path in replay_paths:
            print(f"VIOLATION property={prop} replay={path}")
            if v["key"] not in shown:
                shown.add(v["key"])
                print(f"  key={v['key']} :: {v['msg'][:400]}")
        extra_keys = {v['key'] for _, v in viol_unknown} - shown
        for k in sorted(extra_keys):
            print(f"  (further violation key without replay file: {k})")
        return EXIT_VIOLATION
    if inconclusive:
        print(f"INCONCLUSIVE property={prop} reason={inconclusive}")
        return EXIT_INCONCLUSIVE
    return EXIT_OK


def _replay(mod, path):
    with open(path) as f:
        rp = json.load(f)
    from . import worker  # noqa: F401  (sets up env)
    r = mod.run_case(rp["spec"], inputs=rp.get("inputs")) if _accepts_inputs(mod) else mod.run_case(rp["spec"])
    vs = r.get("violations") or []
    print(json.dumps(dict(spec=rp["spec"], violations=vs, counters=r.get("counters")), indent=1, default=str)[:6000])
    known_keys = {k["key"] for k in load_known() if k.get("property") == mod.PROPERTY and k.get("status") == "known"}
    bad = [v for v in vs if v["key"] not in known_keys]
    if bad:
        print(f"VIOLATION property={mod.PROPERTY} replay={path}")
        return EXIT_VIOLATION
    print("replay: no violation reproduced")
    return EXIT_OK


def _accepts_inputs(mod):
    import inspect

    return "inputs" in inspect.signature(mod.run_case).parameters


def _evidence_dir():
    # mutation / seeded-change evaluation points this elsewhere so that /verif/evidence only ever holds runs on /repo
    return os.environ.get("VERIF_EVIDENCE_DIR") or os.path.join(VERIF_DIR, "evidence")


def _repo_head(repo):
    try:
        h = subprocess.run(["git", "-C", repo, "rev-parse", "--short", "HEAD"], stdout=subprocess.PIPE,
                           stderr=subprocess.DEVNULL, timeout=20).stdout.decode().strip()
        d = subprocess.run(["git", "-C", repo, "status", "--porcelain", "--untracked-files=no"], stdout=subprocess.PIPE,
                           stderr=subprocess.DEVNULL, timeout=20).stdout.decode().strip()
        return h + ("+modified" if d else "")
    except Exception:  # noqa: BLE001
        return "unknown"


def _slug(s):
    return "".join(c if c.isalnum() else "-" for c in s)[:60]


def _versions():
    try:
        import numpy
        import pandas
        import scipy

        return dict(numpy=numpy.__version__, pandas=pandas.__version__, scipy=scipy.__version__,
                    python=sys.version.split()[0])
    except Exception:  # noqa: BLE001
        return {}


def _write_evidence(prop, ev):
    path = os.path.join(_evidence_dir(), f"{prop}.json")
    try:
        import jsonschema

        schema_path = "/root/.vp/EVIDENCE.schema.json"
        if not os.path.exists(schema_path):
            schema_path = os.path.join(VERIF_DIR, "vlib", "EVIDENCE.schema.json")
        with open(schema_path) as f:
            schema = json.load(f)
        # an inconclusive/violated run may not satisfy the minimum counts; it is still written, for the record
        try:
            jsonschema.validate(ev, schema)
            ev["coverage"]["schema_valid"] = True
        except jsonschema.ValidationError as e:
            ev["coverage"]["schema_valid"] = False
            ev["coverage"]["schema_error"] = str(e.message)[:300]
    except ImportError:
        pass
    with open(path, "w") as f:
        json.dump(ev, f, indent=1, sort_keys=True, default=str)
