"""CLI: python -m vlib.check <ID> --tier quick|thorough [--replay FILE] [--budget SECONDS]"""
import argparse
import importlib
import os
import sys

from . import core


def main(argv=None):
    ap = argparse.ArgumentParser()
    ap.add_argument("prop")
    ap.add_argument("--tier", default=os.environ.get("VERIF_TIER", "quick"), choices=["quick", "thorough"])
    ap.add_argument("--replay")
    ap.add_argument("--budget", type=float)
    ap.add_argument("--seed", type=int, default=int(os.environ.get("VERIF_SEED", "0")))
    a = ap.parse_args(argv)
    mod = importlib.import_module(f"vlib.checks.{a.prop.lower()}")
    rc = core.run_check(mod, a.tier, a.seed, replay=a.replay, budget_s=a.budget)
    sys.exit(rc)


if __name__ == "__main__":
    main()
