#!/usr/bin/env python3
"""Writes seeded/README.md (and mutants/README.md) from the evaluator's result.json files, and records in every
meta.json what was run to confirm the change (the `confirmed` key)."""
import json
import os

HERE = os.path.dirname(os.path.dirname(os.path.abspath(__file__)))


def one(base, title, intro):
    d = os.path.join(HERE, base)
    rows = []
    for n in sorted(os.listdir(d)):
        mp, rp = os.path.join(d, n, "meta.json"), os.path.join(d, n, "result.json")
        if not os.path.exists(mp):
            continue
        meta = json.load(open(mp))
        res = json.load(open(rp)) if os.path.exists(rp) else {}
        checks = res.get("checks", {})
        caught = [c for c, v in checks.items() if v.get("caught")]
        keys = sorted({k for v in checks.values() for k in v.get("violation_keys", [])})[:3]
        prev_tests = (meta.get("confirmed") or {}).get("tests")  # a re-evaluation without --tests keeps the earlier
        if res:                                                   # test-suite result of the same patch
            meta["confirmed"] = dict(
                how=("scratch worktree of /repo HEAD %s, `git apply patch.diff`; repository test suite run there "
                     "(PYTHONPATH=<worktree>/src /venv/bin/python -m pytest tests, the two always-failing tests "
                     "deselected); demonstration run without and with the patch; then `VERIF_REPO=<worktree> "
                     "/venv/bin/python -m vlib.check <ID> --tier quick`; worktree removed" % res.get("repo_head")),
                tests=res.get("tests_tail") or prev_tests, demo_exit_without_change=res.get("demo_exit_without_change"),
                demo_exit_with_change=res.get("demo_exit_with_change"),
                checks={c: dict(caught=v.get("caught"), exit=v.get("exit"), seconds=v.get("seconds"),
                                violation_keys=v.get("violation_keys", [])[:6]) for c, v in checks.items()},
                at=res.get("at"))
            with open(mp, "w") as f:
                json.dump(meta, f, indent=1)
        summ = (meta.get("summary") or "").replace("\n", " ").replace("|", "/")
        needs = (meta.get("needs_to_manifest") or "").replace("\n", " ").replace("|", "/")
        rows.append((n, meta.get("property"), summ[:230], needs[:200], res.get("tests_tail") or prev_tests,
                     (res.get("demo_exit_without_change"), res.get("demo_exit_with_change")),
                     ", ".join(caught) if caught else ("NOT CAUGHT" if res else "not evaluated"), "; ".join(keys)))
    with open(os.path.join(d, "README.md"), "w") as f:
        f.write(f"# {title}\n\n{intro}\n\n")
        f.write("| change | property | what it does | needs, to manifest | repository tests | demo exit (without, with) | "
                "caught by (quick tier) | first violation keys |\n|---|---|---|---|---|---|---|---|\n")
        for r in rows:
            f.write("| " + " | ".join(str(x) for x in r) + " |\n")
        n_own = sum(1 for r in rows if r[1] in [c.strip() for c in str(r[6]).split(",")])
        n_other = sum(1 for r in rows if r[6] not in ("NOT CAUGHT", "not evaluated")) - n_own
        f.write(f"\n{n_own} of {len(rows)} changes are caught by the quick tier of the check of their own property"
                + (f"; {n_other} more only by the check of another property (its trigger lies in that property's "
                   f"domain, e.g. a solver fault)" if n_other else "") + ".\n")
    return rows


if __name__ == "__main__":
    one("seeded", "Seeded property-breaking changes",
        "Written by sub-agents that were given only the text of one property and a scratch worktree (nothing from "
        "/verif). `<ID>` is the first round, `<ID>b` a second round that was told the gist of the first change and "
        "asked for a different clause / code path, `<ID>c` a third round (histories, faults, input shapes, cooperating "
        "edits), `<ID>d` a fourth (rarely used options, dtypes, orderings, numerical edges, environment), `<ID>e` a fifth (interactions of "
        "two input classes, extreme values, id formats, missing / non-finite values, scale), `<ID>f` a sixth (caches, views / "
        "copies, comparisons and off-by-one, fallbacks, config-driven selection, other entry points), `<ID>g` a seventh "
        "(semantics of pandas / numpy calls on ties, NaN, empty groups, duplicated keys, dtypes), `<ID>h` an eighth (plausible optimisations and refactors: hoisting, memoising, early returns, parameter plumbing, cooperating edits; triggered by call sequences on one object, option combinations, unusual-but-legal inputs). Each directory holds patch.diff (against /repo HEAD at the time), "
        "the demonstration and meta.json; `tools/eval_seeded.py` re-confirms everything (tests survive, demo fails "
        "with / passes without, which checks alarm). None of these changes is ever committed to /repo.")
    if os.path.isdir(os.path.join(HERE, "mutants")):
        one("mutants", "Hand-written mutants (DESIGN.md section 7)",
            "Crude one-line breaks written while building the checks; several are killed by the repository's own "
            "tests (column 'repository tests'), they are kept as a regression suite for the monitors: "
            "`tools/eval_seeded.py --dir mutants`.")
    print("written")
