#!/bin/sh
# usage: [VERIF_CHECKS="C01 C05"] tools/run_all.sh [quick|thorough] [seed]
# runs the registered checks sequentially, prints one line each (plus the violation keys, if any)
TIER=${1:-quick}; SEED=${2:-0}
CHECKS=${VERIF_CHECKS:-"C01 C02 C03 C04 C05 C06 C07 C08 C09 C10 C11 C12 C13 C14 C15 C16 C17 C18 C19 C20"}
cd "$(dirname "$0")/.."
for p in $CHECKS; do
  t0=$(date +%s)
  L=/tmp/verif_run_${TIER}_${SEED}_$p.log
  VERIF_SEED=$SEED /venv/bin/python -m vlib.check $p --tier $TIER ${VERIF_BUDGET:+--budget $VERIF_BUDGET} > $L 2>&1
  rc=$?
  t1=$(date +%s)
  echo "$p rc=$rc $((t1-t0))s $(grep -E "^$p $TIER" $L | cut -c1-150) $(grep -c '^VIOLATION' $L) VIOLATION-lines $(grep -c '^KNOWN-FINDING' $L) KNOWN $(grep -E '^INCONCLUSIVE' $L | cut -c1-120)"
  grep -E "violation-key|^  key=" $L | cut -c1-400 | head -12
done
