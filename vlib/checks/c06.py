"""C06 - bootstrap intervals are ordered, nested by level, and margins stay in [-1, 1]."""
import numpy as np

from .. import cases as cases_mod
from .. import gen, harness
from .. import reference as ref
from . import common

PROPERTY = "C06"
LEVEL = "exploration"
RULE = ("(tables) real bootstrap get_estimates runs: B in {2,3,5,10,30,100}, lambda_ in {0,0.1,10,cross-validated}, "
        "fixed effects on/off, statewide and district offices, partial units at 50-99% (their clip bounds keep margins "
        "feasible), 2-3 interval levels; row predicates on every unit and every uncalled group row: lower<=upper "
        "(groups: lower<pred<upper), |pred margin|<=1, pred_turnout finite and >=0, nesting of levels. (ranks) the real "
        "_get_quantiles for alpha on a 2000-value grid (incl. 0.7, 0.9, 0.95 whose halves are not representable) x "
        "B in {2..200, 500, 1000, 10000}: 0<=lower rank<=upper rank<=1 and monotone in alpha. Non-trivial: run with "
        ">=2 levels and nonreporting units in >=2 groups; distinct = (B, lambda, office kind, fixed effects?, #levels, "
        "partial units?)")
ASSUMPTIONS = ["no contest is called or stop-listed in this workload (C07 covers those rows)",
               "equality of nested bounds is allowed"]
BATCH = {"quick": 8, "thorough": 25}
BUDGET = {"quick": 120, "thorough": 1500}
MIN_NONTRIVIAL = {"quick": 15, "thorough": 40}
N = {"quick": 260, "thorough": 6000}
B_GRID = list(range(2, 201)) + [500, 1000, 10000]


N_PRES = {"quick": 40, "thorough": 1000}


def cases(tier, seed):
    out = [dict(part="tables", seed=seed, i=i) for i in range(N[tier])]
    out += [dict(part="pres", seed=seed, i=400000 + i) for i in range(N_PRES[tier])]
    chunk = 10
    for j in range(0, len(B_GRID), chunk):
        out.append(dict(part="ranks", seed=seed, i=700000 + j, Bs=B_GRID[j:j + chunk]))
    return out


def alpha_grid(seed):
    rng = gen.rng_for(seed, PROPERTY, 0, salt=99)
    g = list(np.round(np.linspace(0.001, 0.999, 1500), 6)) + [0.7, 0.9, 0.95, 0.99, 0.5, 0.8, 0.6, 0.3, 0.1]
    g += list(np.round(rng.uniform(0.0001, 0.9999, size=491), 8))
    return sorted(set(float(a) for a in g))


def run_case(spec, inputs=None):
    if spec["part"] == "ranks":
        return run_ranks(spec)
    if spec["part"] == "pres":
        return run_pres(spec)
    return run_tables(spec, inputs)


def run_pres(spec):
    """The optional correction from the presidential race (model_parameters['correct_from_presidential']) shifts the
    bootstrapped unit margins; the result must still respect the feasible ranges.  The three presidential files are
    served by a fake storage client, the run goes through the real ModelClient.get_estimates."""
    import datetime
    import io

    import pandas as pd

    from .. import cases as cases_mod

    harness.client_mod()
    from elexmodel.handlers import s3 as s3mod

    out = dict(violations=[], counters={}, sets={}, nontrivial=False)
    rng = gen.rng_for(spec["seed"], PROPERTY, spec["i"], salt=4)
    o = dict(estimator="bootstrap", district=False, el_geo_county=True, el_n_units=int(rng.integers(40, 120)),
             el_n_states=int(rng.integers(1, 3)), feed_p_partial=0.9, feed_frac_reporting=float(rng.uniform(0.3, 0.6)),
             feed_n_unexpected=0, feed_n_missing=0, threshold=100, B=int(gen.choice(rng, [5, 10, 30])), lambda_=1.0,
             alphas=[0.7, 0.9], aggregates=["postal_code", "county_fips", "unit"], fixed_effects={},
             allow_geo_county=True)
    el, feed, status, call = cases_mod.build(spec["seed"], PROPERTY, spec["i"], o)
    call["model_parameters"]["correct_from_presidential"] = True
    # partial units between 50 and 99 percent so that their clip bounds are informative
    for j in range(len(feed)):
        if status.get(feed.loc[j, "geographic_unit_fips"]) == "partial":
            feed.loc[j, "percent_expected_vote"] = float(rng.integers(50, 100))
    # presidential files: strongly one-sided predictions and a large gap to the down-ballot partial count
    side = float(gen.choice(rng, [1.0, -1.0]))
    pres_rows, res_rows, base_rows = [], [], []
    fr = feed.set_index("geographic_unit_fips")
    for r in el.pre.to_dict(orient="records"):
        f = r["geographic_unit_fips"]
        pt = float(r["baseline_dem"] + r["baseline_gop"]) * float(rng.uniform(0.8, 1.2)) + 1
        lean = side * float(rng.uniform(0.6, 0.95))
        rw = float(fr.loc[f, "results_dem"] + fr.loc[f, "results_gop"]) if f in fr.index else 0.0
        nm = (float(fr.loc[f, "results_dem"] - fr.loc[f, "results_gop"]) / rw) if rw else 0.0
        gap = side * float(rng.uniform(0.1, 0.4))
        pres_rows.append(dict(geographic_unit_fips=f, pred_margin=lean * pt, pred_turnout=pt,
                              results_margin=(nm - gap) * max(rw, 1.0)))
        res_rows.append(dict(geographic_unit_fips=f, results_weights=max(rw, 1.0)))
        base_rows.append(dict(geographic_unit_fips=f, baseline_dem=r["baseline_dem"], baseline_gop=r["baseline_gop"]))
    files = {"data/P/data_county.csv": pd.DataFrame(base_rows), "results/P/county/current.csv": pd.DataFrame(res_rows),
             "predictions/P/county/unit_data/current.csv": pd.DataFrame(pres_rows)}
    reads = []

    class FakeClient:
        def get_object(self, **kw):
            key = kw["Key"]
            for suffix, df in files.items():
                if key.endswith(suffix):
                    reads.append(suffix)
                    return {"Body": io.BytesIO(df.to_csv(index=False).encode()), "LastModified": datetime.datetime(2030, 1, 1)}
            raise RuntimeError("unexpected remote read " + key)

        def put_object(self, **kw):
            return {}

    with harness.patched() as p:
        p.set(s3mod.boto3, "client", lambda *a, **k: FakeClient())
        res, exc, client = harness.run_estimates(el, feed, call, want_client=True)
    cm = harness.client_mod()
    if exc is not None:
        if isinstance(exc, cm.ModelNotEnoughSubunitsException):
            out["counters"]["not_enough_units"] = 1
        else:
            info = harness.exc_info(exc)
            out["counters"]["pres_run_raised"] = 1
            out["sets"]["raised"] = [info["type"] + ":" + info["where"][-70:] + ":" + info["msg"][:80]]
        return out
    out["counters"]["pres_runs"] = 1
    out["counters"]["pres_files_read"] = len(reads)
    vs, cnt = checker(el, feed, call, res, client)
    for v in vs:
        v["key"] = v["key"].replace("C06/", "C06/presidential-correction/")
    out["violations"] = vs
    out["counters"].update(cnt)
    m = client.model
    shifted = int(np.sum(np.abs(np.asarray(m.weighted_yz_test_pred)) > 0))
    out["nontrivial"] = shifted > 0
    out["sig"] = ["pres", call["model_parameters"]["B"], side, el.meta["n_states"]]
    if vs:
        out["inputs"] = gen.materialise(el, feed, call)
    if spec["i"] % 10 == 0:
        out["sample"] = gen.jsonable(dict(part="presidential correction", election=el.meta, side=side, files_read=reads,
                                          unit_rows=res["unit_data"].head(3)))
    return out


def run_ranks(spec):
    harness.client_mod()
    from elexmodel.models.BootstrapElectionModel import BootstrapElectionModel

    out = dict(violations=[], counters={}, sets={}, sigs=[])
    alphas = alpha_grid(spec["seed"])
    for B in spec["Bs"]:
        m = BootstrapElectionModel({"features": ["baseline_normalized_margin"], "B": B})
        prev = None
        for a in alphas:
            lq, uq = m._get_quantiles(a)
            out["counters"]["rank_calls"] = out["counters"].get("rank_calls", 0) + 1
            if not (0 <= lq <= uq <= 1):
                out["violations"].append(dict(key="C06/ranks/invalid", msg=f"B={B} alpha={a}: ranks ({lq},{uq})",
                                              witness=dict(B=B, alpha=a)))
                break
            if prev is not None and not (lq <= prev[0] and uq >= prev[1]):
                out["violations"].append(dict(key="C06/ranks/not-monotone-in-alpha", msg=f"B={B}: alpha={a} gives "
                                              f"({lq},{uq}) after ({prev[0]},{prev[1]}) for a smaller alpha",
                                              witness=dict(B=B, alpha=a)))
                break
            prev = (lq, uq)
        out["sigs"].append(["ranks", B])
    out["nontrivial"] = True
    out["sample"] = dict(part="ranks", Bs=spec["Bs"], n_alphas=len(alphas)) if spec["Bs"][0] == 2 else None
    if out["sample"] is None:
        out.pop("sample")
    return out


def checker(el, feed, call, res, client):
    out, cnt = [], {}
    alphas = sorted(call["prediction_intervals"])

    def V(key, msg, **w):
        if len(out) < 20:
            out.append(dict(key=key, msg=msg, witness=w))

    urows = ref.rows(res["unit_data"]) if "unit_data" in res else ref.rows(client.results_handler.unit_data["margin"])
    for u in urows:
        cnt["unit_rows"] = cnt.get("unit_rows", 0) + 1
        for a in alphas:
            lo, hi = u[f"lower_{a}_margin"], u[f"upper_{a}_margin"]
            if not (np.isfinite(lo) and np.isfinite(hi)) or lo > hi:
                V("C06/unit/lower-above-upper", f"unit {u['geographic_unit_fips']} alpha={a}: [{lo},{hi}]")
        for a, b in zip(alphas[:-1], alphas[1:]):
            if not (u[f"lower_{b}_margin"] <= u[f"lower_{a}_margin"] and u[f"upper_{a}_margin"] <= u[f"upper_{b}_margin"]):
                V("C06/unit/not-nested", f"unit {u['geographic_unit_fips']}: level {b} "
                  f"[{u[f'lower_{b}_margin']},{u[f'upper_{b}_margin']}] does not contain level {a} "
                  f"[{u[f'lower_{a}_margin']},{u[f'upper_{a}_margin']}]")
        pt = u.get("pred_turnout")
        if pt is None or not np.isfinite(pt) or pt < 0:
            V("C06/unit/pred-turnout", f"unit {u['geographic_unit_fips']}: pred_turnout={pt}")
        elif abs(u["pred_margin"]) > pt * (1 + 1e-9) + 1e-9:
            V("C06/unit/margin-exceeds-turnout", f"unit {u['geographic_unit_fips']}: |pred_margin|={abs(u['pred_margin'])} "
              f"> pred_turnout={pt} (normalised margin outside [-1,1])")
    groups_with_non = 0
    touched = set(call.get("lhs_called_contests") or []) | set(call.get("rhs_called_contests") or []) | set(
        call.get("stop_model_call") or [])
    for tname, tdf in res.items():
        if tname not in ref.LEVEL_OF:
            continue
        for r in ref.rows(tdf):
            cnt["group_rows"] = cnt.get("group_rows", 0) + 1
            k = tuple(r[c] for c in ref.table_keys(tdf))
            if touched:
                # the strict ordering is stated for groups that are neither called nor stop-listed
                cname = "_".join(str(r[c]) for c in ("postal_code", "district") if c in r)
                if cname in touched or str(r.get("postal_code")) in touched:
                    cnt["called_or_stopped_rows_skipped"] = cnt.get("called_or_stopped_rows_skipped", 0) + 1
                    continue
                cnt["rows_next_to_a_called_contest"] = cnt.get("rows_next_to_a_called_contest", 0) + 1
            pm, pt = r["pred_margin"], r["pred_turnout"]
            if not np.isfinite(pm) or not (-1 - 1e-12 <= pm <= 1 + 1e-12):
                V(f"C06/{tname}/margin-out-of-range", f"{tname}{k}: pred_margin={pm}")
            if not np.isfinite(pt) or pt < 0:
                V(f"C06/{tname}/pred-turnout", f"{tname}{k}: pred_turnout={pt}")
            for a in alphas:
                lo, hi = r[f"lower_{a}_margin"], r[f"upper_{a}_margin"]
                if not (np.isfinite(lo) and np.isfinite(hi) and lo < pm < hi):
                    V(f"C06/{tname}/not-strictly-ordered", f"{tname}{k} alpha={a}: lower={lo} pred={pm} upper={hi}")
            for a, b in zip(alphas[:-1], alphas[1:]):
                if not (r[f"lower_{b}_margin"] <= r[f"lower_{a}_margin"] and r[f"upper_{a}_margin"] <= r[f"upper_{b}_margin"]):
                    V(f"C06/{tname}/not-nested", f"{tname}{k}: level {b} does not contain level {a}")
            if r["reporting"] is not None and pt is not None:
                pass
    return out, cnt


def run_tables(spec, inputs=None):
    def post(out, ctx):
        call, status = ctx["call"], ctx["status"]
        vals = list(status.values())
        res = ctx["res"]
        n_groups_non = 0
        if "unit_data" in res:
            ud = res["unit_data"]
            n_groups_non = ud[(ud.reporting == 0) & (ud.unit_category == "expected")].postal_code.nunique()
        mp = call["model_parameters"]
        out["nontrivial"] = bool(len(call["prediction_intervals"]) >= 2 and "partial" in vals or "zero" in vals)
        out["sig"] = [mp.get("B"), mp.get("lambda_", "cv"), bool(ctx["el"].district), bool(call["fixed_effects"]),
                      len(call["prediction_intervals"]), "partial" in vals, n_groups_non >= 2]
        if spec["i"] % 61 == 0:
            out["sample"] = common.sample_of(ctx, dict(counters=dict(out["counters"])))

    i = spec["i"]
    rng = gen.rng_for(spec["seed"], PROPERTY, i, salt=6)
    o = dict(estimator="bootstrap", B=int(gen.choice(rng, [2, 3, 5, 10, 30, 100])),
             lambda_=gen.choice(rng, [0, 0.1, 10.0, None]), feed_p_partial=0.7,
             alphas=sorted(set(gen.random_alphas(rng, k=int(gen.choice(rng, [2, 3]))))),
             must_aggregates=["postal_code", "unit"])
    if i % 3 == 0:
        o["district"] = True
        o["must_aggregates"] = ["postal_code", "district", "unit"]
        if i % 2 == 0:
            o["call_one_contest"] = True
    spec = dict(spec, o=o, polls=(3 if i % 5 == 4 else 0), shared_feed=bool(i % 10 == 4))
    if inputs is None:
        # partial units between 50 and 99 percent
        pass
    out, ctx = common.run_table_case(spec, PROPERTY, checker, inputs=inputs, post=post)
    return out


def finalize(agg):
    c = agg["counters"]
    if not c.get("rank_calls"):
        return "rank sweep not run", {}
    if not c.get("runs_bootstrap"):
        return "no bootstrap run completed", {}
    return None, dict(rank_grid=dict(alphas=len(alpha_grid(0)), Bs=len(B_GRID)))
