#!/usr/bin/env python3
"""Regenerates /verif/MANIFEST.json from the table below (kept in one place so it always validates)."""
import json
import os

HERE = os.path.dirname(os.path.dirname(os.path.abspath(__file__)))
PY = "/venv/bin/python"

CHECKS = {
    "C01": dict(
        category="exploration",
        technique="runtime monitoring: reference-model monitor (loop-and-dict re-aggregation of the feed) over real get_estimates runs",
        text="Every table returned by real get_estimates runs on generated elections is compared with an independent "
             "loop-and-dict aggregation of the live feed (unit rows against the feed itself, group rows against the "
             "units attributable to them). Holds on the executions observed, across all three estimators, both "
             "policies, district and statewide offices and random aggregate lists; says nothing about input classes "
             "the generator does not produce.",
        note="Trusted: the reference (vlib/reference.py, vlib/tablecheck.py), the id rule for unexpected units as "
             "documented in CombinedData, pandas/numpy. Runs that raise are counted, not judged (C11/C14 judge them).",
        ref="DESIGN.md section 6 C01",
    ),
    "C02": dict(
        category="exploration",
        technique="runtime monitoring: reference-model monitor (re-summing unit rows; recomputing every bootstrap aggregate interval from the model's stored draws) over real get_estimates runs",
        text="Group predictions (nonparametric: and bounds) are re-summed from the unit rows with python loops, finer "
             "tables are summed onto coarser ones, and for the bootstrap every aggregate interval is recomputed group "
             "by group from the draw matrices left on the model object and compared with the row it was stored on, so "
             "a positional mis-assignment is visible even when two groups have similar numbers.",
        note="Trusted: vlib/tablecheck.py reference; model attributes errors_B_1..4 / weighted_*_test_pred as the "
             "unit-level draws. Gaussian aggregate bounds are only checked with row-local relations here (C15 "
             "recomputes them).",
        ref="DESIGN.md section 6 C02",
    ),
    "C03": dict(
        category="exploration",
        technique="runtime monitoring: row-predicate contracts on every returned unit and group row, workloads biased to make each of the five floors binding",
        text="Row predicates (>= counted, finite whole numbers, final units equal counted votes, complete groups "
             "zero-width) evaluated on every row of every table from runs whose feeds are built so that each floor "
             "(unit pred/lower/upper, gaussian aggregate lower/upper) is actually binding; the run is inconclusive if "
             "one of the five sites was never binding.",
        note="Trusted: the predicates in vlib/tablecheck.check_floor; 'binding' is detected as value == positive counted votes.",
        ref="DESIGN.md section 6 C03",
    ),
    "C17": dict(
        category="exploration",
        technique="runtime monitoring: boundary contract on VersionedDataHandler.compute_versioned_margin_estimate against a per-unit plain-python reference; second monitor on _extrapolate_unit_margin",
        text="The real interpolation function is called on generated version histories (regular, repeated, zero "
             "prefixes, downward revisions, impossible batches, shrinking two-party totals, int and float dtypes); a "
             "per-unit reference with true division decides regular/irregular from the statement and recomputes every "
             "row.",
        note="Trusted: the reference in vlib/checks/c17.py. The second monitor (_extrapolate_unit_margin) cannot run "
             "under pandas 3 (the repository's groupby.apply relies on the grouping column being passed); it reports "
             "itself unavailable instead of judging.",
        ref="DESIGN.md section 6 C17",
    ),
    "C18": dict(
        category="fault_enumeration",
        technique="runtime monitoring: offline trace checker over recorded put_object calls + sys.addaudithook file/socket events, exhaustive over save_output x environment x estimator x gate outcome",
        text="Every combination of save_output options, local/non-local environment, estimator, gate outcome (and "
             "national summary for the bootstrap) is executed in a subprocess per environment; the recorded sequence "
             "of remote puts and local file/socket events is checked against the persistence specification (what may "
             "be written, where, and in which order relative to the gate).",
        note="Trusted: the recording boto3 client replaces the network boundary; audit events as delivered by CPython.",
        ref="DESIGN.md section 6 C18",
    ),
    "C20": dict(
        category="fault_enumeration",
        technique="runtime monitoring with fault injection: every fit position x both failure kinds injected at QuantileRegressionSolver.fit; event-log rule for the retry + table comparison with the fault-free run",
        text="For each generated election every position of the failing solve (median/lower/upper of every estimand "
             "and level) and both failure kinds are injected; the solver-call event log is checked against the retry "
             "rule and the returned tables are compared with the fault-free run.",
        note="Trusted: injection at the elexsolver boundary represents real solver failures; the known finding for "
             "lambda_>0 and for weight ratios below 1e-5 are listed in KNOWN_FINDINGS.json.",
        ref="DESIGN.md section 6 C20",
    ),
    "C04": dict(
        category="exploration",
        technique="runtime monitoring: wrappers + sys.monitoring local probe on the real interval code against a reference-model monitor; statistical monitor (exact binomial tail) for the coverage clause",
        text="Clause 1: for every nonparametric interval computation in real runs and in direct calls with hostile "
             "calibration sets (ties, dominant weight, negative corrections, shares hitting the quantile level) the "
             "published unit bounds must equal those obtained from an independently computed correction (smallest "
             "score whose baseline-weighted share exceeds alpha(1+1/n_cal); robust: max with the unweighted quantile); a "
             "PY_RETURN probe observes the local `correction`. Clause 2: Monte-Carlo coverage on i.i.d. equal-baseline "
             "elections with an exact binomial verdict (false-alarm probability <= 1e-9 per cell).",
        note="Trusted: reference in vlib/checks/c04.py; split-conformal theory for the false-alarm bound; clause 2 is a "
             "statement about a distribution and is decided with that stated error probability.",
        ref="DESIGN.md section 6 C04",
    ),
    "C05": dict(
        category="exploration",
        technique="runtime monitoring: reference-model monitor (sorted, exact-integer weighted median) on returned unit tables of real runs without covariates",
        text="Runs with features=[] and fixed_effects={}: every nonreporting unit's prediction must equal "
             "round(max(m*w+w, partial)) with m the unique baseline-weighted median of the relative change over the "
             "modelled reporting units; non-unique medians are skipped and counted.",
        note="Trusted: the weighted-median reference; the modelled reporting set is read from the returned table (C09 checks it).",
        ref="DESIGN.md section 6 C05",
    ),
    "C06": dict(
        category="exploration",
        technique="runtime monitoring: row-predicate contracts on bootstrap tables + contract sweep of the real _get_quantiles over an alpha x B grid",
        text="Ordering, nesting, margin range and turnout predicates on every unit/group row of real bootstrap runs "
             "(B from 2 to 100, lambda incl. cross-validated, districts, partial units), and the rank arithmetic "
             "evaluated on 2000 alphas x 202 values of B.",
        note="Trusted: predicates in vlib/checks/c06.py. At most one contest is called or stop-listed (district cases); rows of that contest are skipped, C07 judges them.",
        ref="DESIGN.md section 6 C06",
    ),
    "C07": dict(
        category="exploration",
        technique="runtime monitoring: decision-table oracle on real runs + state injection into the model's draw matrices driving every feasible table row through the real aggregate methods",
        text="Per contest and level the decision table (called left/right, stopped, untouched) is checked on real runs "
             "and on injected bootstrap states that force every feasible sign combination of (lower, prediction, "
             "upper); contradictory or unknown call lists must raise BootstrapElectionModelException.",
        note="Trusted: the injection writes the attributes compute_bootstrap_errors writes; thorough/quick are "
             "inconclusive unless all 24 feasible rows were reached.",
        ref="DESIGN.md section 6 C07",
    ),
    "C08": dict(
        category="exploration",
        technique="runtime monitoring: history-independence (same election, different aggregate lists) two-run monitor + contract on the national summary with draw replacement for called contests",
        text="The national summary of real bootstrap runs is checked for ordering, range, the prediction formula "
             "against the returned contest table, invariance under replacement of the draws of called contests, "
             "rejection of wrong-size weights, and equality across 3-4 different aggregate lists/orders per election.",
        note="Trusted: draw matrices read from the model object. Known finding (non-correlated modes) in KNOWN_FINDINGS.json.",
        ref="DESIGN.md section 6 C08",
    ),
    "C09": dict(
        category="exploration",
        technique="runtime monitoring: boundary contract on CombinedDataHandler.get_units (wrapper inside real get_estimates) against a plain-python reference classifier",
        text="Boundary-heavy feeds (values exactly at threshold and at the turnout-factor limits, overlapping reasons, "
             "both policies, outlier models) are classified unit by unit by a reference and compared with the three "
             "frames the real get_units returns; derived columns are recomputed.",
        note="Trusted: reference classifier; which units an enabled outlier model flags is taken from its recorded output.",
        ref="DESIGN.md section 6 C09",
    ),
    "C10": dict(
        category="exploration",
        technique="runtime monitoring: two-run (non-interference) monitor with solver-input digests recorded at elexsolver fit boundaries",
        text="Pairs of runs differing only in one victim unit's counts: all other unit rows and all groups not "
             "containing it must be bit-identical and the sequence of solver input digests must not change; the "
             "historical clause is run from local files in a scratch directory.",
        note="Trusted: digest = sha1 of array bytes; gaussian sigma with 300 resamples.",
        ref="DESIGN.md section 6 C10",
    ),
    "C11": dict(
        category="exploration",
        technique="runtime monitoring: two-run (frame-rule) monitor with/without extra feed rows, bootstrap draw matrices compared and intervals recomputed",
        text="Runs with and without 1-3 extra unexpected units: the second result must equal the first plus exactly the "
             "extra votes on the attributable groups, new groups only where needed, one unit row each, all else "
             "unchanged (bootstrap: up to 1e-10 relative because matrix shapes change), and must never raise.",
        note="Trusted: id rule for attribution. The two bootstrap classes that used to be known findings were repaired (fix 9665ed4) and alarm again if they return.",
        ref="DESIGN.md section 6 C11",
    ),
    "C12": dict(
        category="exploration",
        technique="runtime monitoring: two-run determinism monitor over call histories and across processes with different PYTHONHASHSEED",
        text="Canonical digests of all returned tables (and the national summary) compared across fresh client / same "
             "client / A-B-A histories and fresh processes with other hash seeds.",
        note="Trusted: digest covers column names, order, dtypes and value bytes; BLAS threads pinned to 1.",
        ref="DESIGN.md section 6 C12",
    ),
    "C13": dict(
        category="exploration",
        technique="runtime monitoring: two-run monitor comparing a base request with sub-requests on their common columns",
        text="A base request and six kinds of sub-request per election; common (table,row,column) cells must be "
             "bit-identical and key/category columns stable.",
        note="Trusted: complete feeds only (quantifier).",
        ref="DESIGN.md section 6 C13",
    ),
    "C14": dict(
        category="exploration",
        technique="runtime monitoring: outcome contract on get_estimates around the minimum + exhaustive sweep of the real split arithmetic with a stubbed solver",
        text="Gate runs at n in {min-2..min+3}; the real get_unit_prediction_intervals for every n from the minimum to "
             "400 (quick) / 3000 (thorough) x the alpha grid with only the solver stubbed; sampled real-solver calls; "
             "duplicate ids.",
        note="Trusted: the stub replaces only QuantileRegressionSolver.fit.",
        ref="DESIGN.md section 6 C14",
    ),
    "C15": dict(
        category="exploration",
        technique="runtime monitoring: wrapper on GaussianElectionModel.get_aggregate_prediction_intervals + reference-model monitor for group->ancestor assignment, statistics and bounds formula",
        text="For every aggregate interval computation of real gaussian runs the reference walks each nonreporting group "
             "up to the first ancestor with enough calibration units, recomputes its statistics and the bounds formula "
             "and compares with modeled_bounds_agg and the published columns.",
        note="Trusted: the repository's seeded boot_sigma value (its assignment to groups is what is checked).",
        ref="DESIGN.md section 6 C15",
    ),
    "C16": dict(
        category="exploration",
        technique="runtime monitoring: boundary contracts on Featurizer.prepare_data / filter_to_active_features / generate_holdout_data in full runs and direct hostile calls",
        text="Contracts on every Featurizer call of full runs (three estimators, strata, outlier model) and on 16k "
             "(quick) random frames.",
        note="Trusted: contracts in vlib/checks/c16.py; prefix-colliding effect names not generated.",
        ref="DESIGN.md section 6 C16",
    ),
    "C19": dict(
        category="fault_enumeration",
        technique="runtime monitoring: scripted service behind a real botocore client with the real s3transfer thread pool; event log + return-value oracle under injected delays and download faults",
        text="Listing and retrieval over generated version histories, page sizes, windows, sampling steps, failing "
             "subsets and injected delays, with the real TransferManager threads; each returned row identifies its "
             "download.",
        note="Trusted: the scripted service honours S3 paging semantics (newest first, markers).",
        ref="DESIGN.md section 6 C19",
    ),
}

# workloads / observability added after the three rounds of independently written breaking changes (DESIGN.md 9.4)
EXTRA = {
    "C01": " Also: election-night histories (one client polled three times while units start to report, every poll "
           "judged), feeds with null cells (a missing count carries no votes), primary-style baseline_pointer configs, "
           "county-level geographies.",
    "C02": " Also: hamlet counties (groups predicted below one vote), uncontested counties/districts, election-night "
           "histories on one client.",
    "C03": " Also: election-night histories on one client (a memo of earlier counted votes would show), hamlet counties.",
    "C04": " Also: a partition monitor (rows the bound regressions were fit on + calibration rows = reporting rows, "
           "disjoint) and deterministic cases at exactly the minimum number of units.",
    "C05": " Also: a direct part calling the model classes with frames whose row labels are shuffled / offset / "
           "strings / duplicated, and configs in which several estimands share one baseline pointer.",
    "C06": " Also: correct_from_presidential through the real client with a fake storage reader, unit-level "
           "|margin| <= turnout, uncontested groups (margin exactly +-1), election-night histories.",
    "C07": " Also: call lists handed over as list / tuple / set / frozenset / dict, a called contest without any vote.",
    "C08": " Also: a second summary request with other weights / base / levels on the same model, the identical "
           "request twice (T and sigmoid modes), retraction of calls on one model object compared with a fresh run, "
           "weight dicts in random key order.",
    "C09": " Also: fractional percentages just below the threshold, state-level blocklists, precedence "
           "blocklist > zero-baseline > strange > modelled.",
    "C10": " Victim kinds: nonreporting, blocklisted by unit and by state, zero-baseline, unexpected; perturbations "
           "up to 30x; counties of mixed size.",
    "C11": " Extra units of kinds: known county, unknown county, unknown district (district offices), state without "
           "any baseline unit.",
    "C12": " Also: argument objects shared between calls (not copied by the harness), the national summary requested "
           "twice on one client, seed 0.",
    "C13": "",
    "C14": " Also: same-client histories (a stricter or failing earlier request must not raise the bar of a later "
           "one), duplicates via the feed and via the baseline.",
    "C15": " Also: one third of the runs save conformalization data to a recording storage client (the returned frame "
           "must not be altered by it); groups whose scale statistic is exactly zero.",
    "C16": " Direct frames carry row labels as the models produce them (restarting per frame) or permuted; the "
           "holdout slice includes units outside the model.",
    "C17": " Also: histories driven through get_versioned_results() over a stubbed version store (non-adjacent "
           "repeated versions, reverts).",
    "C18": " Also: gate outcome 'fail with no vote at all', argument modes copied / one shared dict / omitted, and "
           "children in which the client fetches config and baseline from the (recording) storage.",
    "C19": " Also: window bounds given as the same instants in arbitrary time zones and as ISO strings with offsets "
           "through VersionedDataHandler.",
    "C20": " Also: faults injected below fit() (the n-th underlying solve of the run fails once, every position), "
           "two faults per run, the inaccuracy warning delivered through the real warnings machinery (CLARABEL status "
           "flip for lambda_>0, warn_explicit with the measured origin for lambda_=0), and every other fit must be "
           "executed exactly as in the fault-free run.",
}

EXTRA2 = {
    "C01": " Rounds 4-5: feeds as list of lists, categorical grouping column, percentages within float tolerance of the threshold, one live feed frame overwritten between polls, odd unexpected ids, baseline file saved by an earlier run.",
    "C02": " Rounds 4-5: categorical and integer grouping columns, one live feed frame overwritten between polls.",
    "C03": " Rounds 4-5: integer grouping columns, one live feed frame overwritten between polls.",
    "C04": " Rounds 4-5: the table column of every level must hold the interval calibrated at that level (unsorted level lists); conformity scores recomputed from the held-out units' actual counts and the recorded bound predictions; party-surge elections.",
    "C05": " Rounds 4-5: party-surge elections (median change far outside the turnout-factor band), shuffled baseline rows.",
    "C06": " Rounds 4-5: rarely used bootstrap options (strata, unobserved bounds, percent_expected_vote_error_bound up to 5, states_for_separate_model).",
    "C07": " Rounds 4-5: statewide offices without default aggregates (A, L, G_precinct).",
    "C09": " Rounds 4-5: baseline file carrying derived columns of an earlier run, outlier_z_threshold varied, unit and state blocklists together.",
    "C10": " Rounds 4-5: counts just below 127 / 32767 with list-of-lists feeds; hidden historical value missing or infinite.",
    "C11": " Rounds 4-5: every expected unit reporting plus a stray unit; ids differing from a baseline id only by a blank.",
    "C12": " Rounds 4-5: cross-process runs for every estimator with three hash seeds, two-column strata, elections of 6500-9500 units.",
    "C13": " Rounds 4-5: forced primary-style configs, every estimand requested alone.",
    "C14": " Rounds 4-5: no unit reaches the model (empty frame, header-only list, only unexpected units, every state blocklisted); a second state of one fully reported unit.",
    "C16": " Rounds 4-5: the selection is judged against the user's request (constructor wrapped); level labels shared between effects.",
    "C17": " Rounds 4-5: histories served as stored versions through the real S3VersionUtil across the end of daylight saving time; percent columns that drop during the night.",
    "C18": " Rounds 4-5: gate outcome 'every state blocklisted'.",
    "C19": " Rounds 4-5: 257-1100 versions with steps up to 11."
}

EXTRA3 = {
    "C01": " Rounds 6-7: baseline files (and feeds) holding more states than the config names.",
    "C02": " Rounds 6-7: several states reusing district labels with groups of very different size (gaussian).",
    "C03": " Rounds 6-7: the floor is also taken from the feed itself (every feed row attributable to a group), null cells.",
    "C04": " Rounds 6-7: direct frames with mask-slice / permuted / string row labels; a result that is not one bound per unit is a violation.",
    "C06": " Rounds 6-7: one called or stop-listed contest per district case (preferably a name that is a prefix of another contest's name); its neighbours must keep the strict ordering.",
    "C07": " Rounds 6-7: call lists naming a configured state that has no unit in the run; repeated entries inside a list.",
    "C08": " Rounds 6-7: repeated entries inside the call lists.",
    "C09": " Rounds 6-7: null in a count column the run does not use; baseline files with extra states.",
    "C10": " Rounds 6-7: feed units unknown to the historical file in the middle of the feed; units of states the config does not name as victims.",
    "C12": " Rounds 6-7: baseline frame edited in place between two runs; a bootstrap margin run followed by the case's own request on one feed frame object.",
    "C13": " Rounds 6-7: integer grouping columns with three estimands.",
    "C14": " Rounds 6-7: the gate entered through HistoricalModelClient.get_historical_evaluation; feeds listing only the units reported so far; contests smaller than the minimum that are complete.",
    "C17": " Rounds 6-7: stored shares missing on zero-vote versions.",
    "C18": " Rounds 6-7: children that drive the command line (elexmodel.cli through click's test runner) for every subset of --save_output with and without --national_summary; a child whose every run ends in the same model error is counted, not judged.",
    "C19": " Rounds 6-7: a second handler for another window built before the first is used; an oldest version with the id 'null'; a download request without version id is a violation.",
    "C20": " Rounds 6-7: a one-voter unit next to a unit scaled by 3000 (weight ratios below 1e-6)."
}

EXTRA4 = {
    "C03": " Round 8: baseline files whose rows are not grouped by state (random row order, a fifth of all cases of the shared builder).",
    "C05": " Round 8: lambda_ > 0 on the covariate-free model (the conic solver's median is accepted up to its accuracy, 2e-4 of the unit size, counted).",
    "C07": " Round 8: one client for the night - no calls, calls made, a contradictory call, the calls again, calls retracted - every poll compared with a fresh client.",
    "C08": " Round 8: statewide offices whose baseline carries a district column and whose config allows that aggregate (known finding: the (state, district) groups are taken for the contests).",
    "C09": " Round 8: a row with one requested count missing under the drop policy (the unit is unexpected, exactly once).",
    "C10": " Round 8: robust correction together with a partial count far above the victim's own interval.",
    "C11": " Round 8: both polls answered by one client that earlier knew the extra units as expected units (baseline file corrected since).",
    "C12": " Round 8: contest_correlations (overlapping pairs, projected to PSD; one group).",
    "C13": " Round 8: levels that agree to two or three decimals (0.99 / 0.995, 0.9 / 0.901), every level also requested alone.",
    "C17": " Round 8: the extrapolation monitor runs again (real _extrapolate_unit_margin with DataFrameGroupBy.apply behaving as in pandas 2, counted separately) and also compares with the flagged units removed altogether.",
    "C18": " Round 8: a third of the children answer all their polls with ONE client (same feed, only save_output changes).",
    "C20": " Round 8: half of the elections run after a bootstrap request was answered in the same process.",
}

NOT_YET = {}


def main():
    props = [json.loads(l) for l in open(os.path.join(HERE, "properties.jsonl"))]
    checks = []
    na = []
    for p in props:
        pid = p["id"]
        c = CHECKS.get(pid)
        if c is None:
            na.append(dict(property_id=pid, reason=NOT_YET.get(pid, "check under construction in this session; not "
                                                                    "claimed until it runs silently on the unchanged tree")))
            continue
        checks.append(dict(
            property_id=pid,
            quick_cmd=f"{PY} -m vlib.check {pid} --tier quick",
            thorough_cmd=f"{PY} -m vlib.check {pid} --tier thorough",
            evidence_file=f"/verif/evidence/{pid}.json",
            replay_cmd_template=f"{PY} -m vlib.check {pid} --replay {{path}}",
            engine="vlib",
            level_claimed=dict(category=c["category"], text=c["text"] + EXTRA.get(pid, "") + EXTRA2.get(pid, "") + EXTRA3.get(pid, "") + EXTRA4.get(pid, ""), design_ref=c["ref"] + " and 9.4"),
            level_note=c["note"],
            technique=c["technique"],
        ))
    m = dict(
        version=1,
        setup_cmd="true",
        hooks=dict(
            guard="ELEXMODEL_VERIF",
            enable="no source hooks: monitors are attached from the harness process (class-attribute wrappers, "
                   "sys.monitoring local probes, audit hooks, fake storage clients); ELEXMODEL_VERIF=1 is set by "
                   "vlib/env.py for the worker processes only",
            baseline_off_cmd="cd /repo && /venv/bin/python -m pytest -ra -q -p no:cacheprovider --timeout=900 "
                             "--continue-on-collection-errors",
            source_commits=[],
            add_only=True,
        ),
        engines=[dict(name="vlib", path="/verif/vlib", serves_properties=sorted(CHECKS),
                      kind_free_text="python harness: generators, wrappers/probes on the real classes, reference "
                                     "models, trace checkers, fault injection, sharded over worker subprocesses")],
        checks=checks,
        not_applicable=na,
        notes="All checks: cwd=/verif, VERIF_SEED / VERIF_TIER honoured, evidence rewritten on every run, exit 0 held / "
              "1 VIOLATION / 2 INCONCLUSIVE. Known findings: /verif/KNOWN_FINDINGS.json.",
    )
    with open(os.path.join(HERE, "MANIFEST.json"), "w") as f:
        json.dump(m, f, indent=1)
    try:
        import jsonschema
        jsonschema.validate(m, json.load(open("/root/.vp/MANIFEST.schema.json")))
        print("MANIFEST.json valid;", len(checks), "checks,", len(na), "not claimed")
    except ImportError:
        print("written (jsonschema not available)")


if __name__ == "__main__":
    main()
