"""C18 - nothing is persisted unless asked; results saved before a too-few-units error.

Each spec = one (environment, estimator, gate outcome, election).  run_case spawns ONE child process with that
environment (APP_ENV / DATA_ENV / bucket / root are read at import by elexmodel) and a private scratch cwd; the child
runs all 16 subsets of save_output (x with/without national summary for the bootstrap) and records a trace:
put_object calls on a recording boto3 client, audit-hook events for file writes / mkdir / sockets, outcome.
The parent checks every trace against the specification.
"""
import itertools
import json
import os
import re
import shutil
import subprocess
import sys
import tempfile

from .. import core

PROPERTY = "C18"
LEVEL = "fault_enumeration"
EXHAUSTIVE = True
RULE = ("(model_parameters handed over as a fresh copy per run / as ONE dict object reused by all 16 runs of the "
        "process / left out) exhaustive over {16 subsets of save_output} x {local, non-local environment} x {nonparametric, gaussian, "
        "bootstrap} x {minimum-units gate passes, fails with a few units reporting, fails with a feed in which no unit has a vote yet} x {with, without national summary (bootstrap)}; each "
        "environment runs in a fresh subprocess with its own scratch cwd. Trace = sequence of put_object calls on a "
        "recording S3 client + audit events (file opens for writing, mkdir, rename, socket connects) + outcome; "
        "checked against the specification in DESIGN.md 6/C18. Non-trivial: a trace with at least one persisted "
        "artefact or a gate failure; distinct = (env, estimator, gate, subset, summary)")
ASSUMPTIONS = ["storage is observed at boto3.client('s3').put_object / get_object (a recording fake); nothing below "
               "that boundary is exercised",
               "file writes are observed through sys.addaudithook('open' with a writing mode, os.mkdir, os.rename, "
               "os.remove); *.pyc and /dev/null are ignored"]
BATCH = {"quick": 1, "thorough": 1}
BUDGET = {"quick": 200, "thorough": 1500}
MIN_NONTRIVIAL = {"quick": 20, "thorough": 50}
CASE_TIMEOUT = 1200
OPTIONS = ["results", "data", "config", "conformalization"]
SUBSETS = [list(c) for r in range(5) for c in itertools.combinations(OPTIONS, r)]
ENVS = {"local": dict(APP_ENV="local", DATA_ENV="dev"), "prod": dict(APP_ENV="prod", DATA_ENV="prod")}
BUCKET, ROOT = "verif-bucket", "verif-root"
ARG_MODES = ["copied", "shared", "omitted"]


def cases(tier, seed):
    out = []
    n_el = 1 if tier == "quick" else 5
    k = 0
    for e in range(n_el):
        for env in ENVS:
            for est in ("nonparametric", "gaussian", "bootstrap"):
                for gate in ("pass", "fail", "fail-empty", "fail-blocklisted"):
                    # how the caller hands over model_parameters across the 16 runs of one process: a fresh copy per
                    # run, ONE dict object reused for every run, or (no parameters needed) the argument left out
                    args = ARG_MODES[(k + e) % len(ARG_MODES)]
                    if est == "bootstrap" and args == "omitted":
                        args = "shared"  # the bootstrap case needs B / lambda_ to stay cheap
                    if gate == "fail-blocklisted" and args == "omitted":
                        args = "copied"  # the blocklist travels in model_parameters
                    # config and preprocessed data handed over by the caller, or fetched from storage by the client
                    inputs = "storage" if (k + e) % 4 == 1 else "passed"
                    out.append(dict(seed=seed, i=e, env=env, estimator=est, gate=gate, args=args, inputs=inputs,
                                    same_client=bool((k + e) % 3 == 1)))
                    k += 1
    # the same specification through the command line entry point (elexmodel.cli driven in-process by click's test
    # runner): no --save_output option at all is "no options", each --save_output value names one thing to persist
    for e in range(n_el):
        for env, est, gate in (("prod", "nonparametric", "pass"), ("prod", "bootstrap", "pass"),
                               ("prod", "gaussian", "fail"), ("local", "nonparametric", "pass")):
            out.append(dict(seed=seed, i=e, env=env, estimator=est, gate=gate, args="copied", inputs="cli"))
    if tier == "quick":  # make sure the gaussian / non-local / gate-passes child exists in every argument mode
        for args in ARG_MODES:
            if not any(s_["estimator"] == "gaussian" and s_["env"] == "prod" and s_["gate"] == "pass" and s_["args"] == args
                       for s_ in out):
                out.append(dict(seed=seed, i=0, env="prod", estimator="gaussian", gate="pass", args=args, inputs="passed"))
    return out


# ---------------------------------------------------------------------------------------------------------------
# parent side


def run_case(spec, inputs=None):
    out = dict(violations=[], counters={}, sets={}, nontrivial=False,
               sig=[spec["env"], spec["estimator"], spec["gate"]])
    scratch = tempfile.mkdtemp(prefix="verif_c18_")
    try:
        e = dict(os.environ)
        e.update(ENVS[spec["env"]])
        e.update(MODEL_S3_BUCKET=BUCKET, MODEL_S3_PATH_ROOT=ROOT, PYTHONPATH=core.VERIF_DIR, PYTHONHASHSEED="0",
                 APP_LOG_LEVEL="CRITICAL")
        p = subprocess.run([sys.executable, "-m", "vlib.checks.c18", "child", json.dumps(spec)], cwd=scratch, env=e,
                           stdout=subprocess.PIPE, stderr=subprocess.PIPE, timeout=1000)
        if p.returncode != 0:
            out["inconclusive"] = f"child failed: {p.stderr.decode(errors='replace')[-1200:]}"
            return out
        traces = json.loads(p.stdout.decode().strip().splitlines()[-1])
    finally:
        shutil.rmtree(scratch, ignore_errors=True)
    sigs = []
    errs = {(t.get("exc_type"), (t.get("exc_msg") or "")[:60]) for t in traces if t["outcome"] == "error"}
    if errs and all(t["outcome"] == "error" for t in traces) and len(errs) == 1:
        # EVERY run of this child - whatever it was asked to persist, even nothing - ends in the same error inside the
        # model: this election cannot be estimated (a singular design, say), which is not a statement about
        # persistence.  Not judged; counted, and the whole check is inconclusive if that happens to many children.
        out["counters"]["children_whose_election_cannot_be_estimated"] = 1
        out["sets"]["unusable_elections"] = [[spec["estimator"], list(errs)[0][0], list(errs)[0][1]]]
        return out
    for tr in traces:
        vs = check_trace(tr, spec)
        out["violations"] += vs
        out["counters"]["traces"] = out["counters"].get("traces", 0) + 1
        if tr.get("same_client"):
            out["counters"]["traces_on_a_client_used_before"] = out["counters"].get("traces_on_a_client_used_before", 0) + 1
        out["counters"]["put_events"] = out["counters"].get("put_events", 0) + len(tr["puts"])
        out["counters"]["file_events"] = out["counters"].get("file_events", 0) + len(tr["files"])
        out["counters"][f"outcome_{tr['outcome']}"] = out["counters"].get(f"outcome_{tr['outcome']}", 0) + 1
        if tr["puts"] or tr["files"] or tr["outcome"] == "not_enough":
            sigs.append([spec["env"], spec["estimator"], spec["gate"], tr["save_output"], tr["summary"],
                         spec.get("args", "copied"), spec.get("inputs", "passed")])
    out["sets"]["traces"] = sigs
    out["sigs"] = sigs
    out["nontrivial"] = bool(sigs)
    if spec["estimator"] == "gaussian" and spec["env"] == "prod" and spec["gate"] == "pass":
        full = [t for t in traces if set(t["save_output"]) == set(OPTIONS)]
        if full:
            out["sample"] = dict(spec=spec, save_output=full[0]["save_output"], outcome=full[0]["outcome"],
                                 puts=[p_["Key"] for p_ in full[0]["puts"]][:12], files=full[0]["files"][:6],
                                 returned_tables=full[0]["tables"])
    if out["violations"]:
        out["inputs"] = dict(spec=spec)
    return out


def check_trace(tr, spec):
    vs = []
    so = set(tr["save_output"])
    env = spec["env"]
    est = spec["estimator"]
    data_env = ENVS[env]["DATA_ENV"]
    where = (f"env={env} estimator={est} gate={spec['gate']} save_output={sorted(so)} summary={tr['summary']} "
             f"model_parameters={spec.get('args', 'copied')} inputs={spec.get('inputs', 'passed')}")

    def V(key, msg, **w):
        vs.append(dict(key=key, msg=f"{msg} [{where}]", witness=dict(trace=dict(puts=[p["Key"] for p in tr["puts"]],
                                                                              files=tr["files"], outcome=tr["outcome"]),
                                                                     **w)))

    if tr["outcome"] == "error":
        V(f"C18/run-raised/{tr['exc_type']}", f"run raised {tr['exc_type']}: {tr['exc_msg']}")
        return vs
    if spec["gate"] in ("fail", "fail-empty", "fail-blocklisted") and tr["outcome"] != "not_enough":
        V("C18/harness/gate-did-not-fail", "expected the minimum-units gate to fail")
    if spec["gate"] == "pass" and tr["outcome"] != "ok":
        V("C18/harness/gate-did-not-pass", "expected the run to complete")
    if tr["sockets"]:
        V("C18/network-activity", f"socket events {tr['sockets'][:3]}")
    prefix = f"{ROOT}-{data_env}/{tr['election_id']}/"
    keyre = re.compile("^" + re.escape(prefix) + r"\S+$")
    puts = tr["puts"]
    for p in puts:
        if p["Bucket"] != f"{BUCKET}-{data_env}":
            V("C18/wrong-bucket", f"put to bucket {p['Bucket']}")
        if not keyre.match(p["Key"]) or re.search(r"\s", p["Key"]):
            kind = "whitespace" if re.search(r"\s", p["Key"]) else "outside-root"
            V(f"C18/key-{kind}", f"remote key {p['Key']!r}")
    base = f"{prefix}results/{tr['office']}/{tr['geo_type']}/"
    res_keys = [base + "current.csv", base + "current_counties.csv"]
    pred_prefix = f"{prefix}predictions/{tr['office']}/{tr['geo_type']}/"
    is_res = [p for p in puts if p["Key"] in res_keys]
    is_pred = [p for p in puts if p["Key"].startswith(pred_prefix)]
    is_gauss = [p for p in puts if "/gaussian/" in p["Key"]]
    other = [p for p in puts if p not in is_res and p not in is_pred and p not in is_gauss]
    if other:
        V("C18/unexpected-put", f"puts outside the documented layout: {[p['Key'] for p in other][:3]}")
    remote_results = "results" in so and env != "local"
    if not remote_results:
        if is_res or is_pred:
            why = "local-environment" if "results" in so else "results-not-requested"
            V(f"C18/results-written/{why}", f"{len(is_res)} result and {len(is_pred)} prediction puts")
    else:
        got = sorted(p["Key"] for p in is_res)
        if got != sorted(res_keys):
            V("C18/live-results-not-saved" + ("/gate-failed" if tr["outcome"] == "not_enough" else ""),
              f"live result puts {got} != {res_keys}")
        else:
            t_res = max(p["t"] for p in is_res)
            if tr["outcome"] == "not_enough" and t_res > tr["t_outcome"]:
                V("C18/live-results-after-gate", "live results written after the not-enough-units error")
            if is_pred and min(p["t"] for p in is_pred) < t_res:
                V("C18/live-results-after-predictions", "a prediction table was written before the live results")
        want_pred = sorted(pred_prefix + t + "/current.csv" for t in tr["tables"]) if tr["outcome"] == "ok" else []
        got_pred = sorted(p["Key"] for p in is_pred)
        if got_pred != want_pred:
            V("C18/prediction-tables", f"prediction puts {got_pred} != one per returned table {want_pred}")
    if "conformalization" not in so and is_gauss:
        V("C18/conformalization-not-requested", f"{len(is_gauss)} gaussian/ puts although not requested")
    if "conformalization" in so and est == "gaussian" and tr["outcome"] == "ok" and tr["n_agg"] > 0 and not is_gauss:
        V("C18/conformalization-requested-not-written", "no gaussian/ put although requested")
    if est != "gaussian" and is_gauss:
        V("C18/conformalization-from-other-estimator", f"{len(is_gauss)} gaussian/ puts from {est}")
    # local files ---------------------------------------------------------------------------------------------
    cwd = tr["cwd"]
    allowed = []
    if "data" in so:
        allowed.append(os.path.join(cwd, "data", tr["election_id"]))
    if "config" in so:
        allowed.append(os.path.join(cwd, "config"))
    for ev in tr["files"]:
        path = ev["path"]
        ok = any(path == a or path.startswith(a + os.sep) or a.startswith(path + os.sep) and ev["op"] == "mkdir"
                 for a in allowed)
        if not ok:
            kind = "under-cwd" if path.startswith(cwd) else "outside-cwd"
            V(f"C18/file-written/{kind}", f"{ev['op']} {path}")
    if "data" in so and tr["outcome"] in ("ok", "not_enough"):
        want = os.path.join(cwd, "data", tr["election_id"], tr["office"], f"data_{tr['geo_type']}.csv")
        if not any(ev["path"] == want for ev in tr["files"]):
            V("C18/data-file-not-written", f"{want} not written")
    if "config" in so:
        want = os.path.join(cwd, "config", f"{tr['election_id']}.json")
        if not any(ev["path"] == want for ev in tr["files"]):
            V("C18/config-file-not-written", f"{want} not written")
    return vs


def finalize(agg):
    c = agg["counters"]
    if not c.get("outcome_ok") or not c.get("outcome_not_enough"):
        return "both gate outcomes were not observed", {}
    if not c.get("put_events") or not c.get("file_events"):
        return "no put / file event observed at all", {}
    if c.get("children_whose_election_cannot_be_estimated", 0) * 4 > c.get("cases_total", 10 ** 9):
        return "more than a quarter of the children got an election that cannot be estimated at all", {}
    return None, {}


# ---------------------------------------------------------------------------------------------------------------
# child side


def child(spec):
    import copy

    cwd = os.getcwd()
    log = dict(t=0, puts=[], files=[], sockets=[], active=False)

    def tick():
        log["t"] += 1
        return log["t"]

    def hook(event, args):
        if not log["active"]:
            return
        try:
            if event == "open":
                path, mode = args[0], args[1]
                if isinstance(path, int) or mode is None:
                    return
                if any(ch in str(mode) for ch in "wax+"):
                    path = os.fspath(path)
                    if isinstance(path, bytes):
                        path = path.decode(errors="replace")
                    if path.endswith(".pyc") or path == os.devnull or ".pyc." in path:
                        return
                    log["files"].append(dict(op="open:" + str(mode), path=os.path.abspath(path), t=tick()))
            elif event in ("os.mkdir", "os.rename", "os.remove", "os.rmdir"):
                path = os.fspath(args[0])
                if isinstance(path, str) and "__pycache__" in path:
                    return
                log["files"].append(dict(op=event.split(".")[1], path=os.path.abspath(str(path)), t=tick()))
            elif event in ("socket.connect", "socket.getaddrinfo", "socket.bind", "socket.sendto"):
                log["sockets"].append(dict(op=event, args=repr(args[1:])[:120], t=tick()))
        except Exception:  # noqa: BLE001
            pass

    sys.addaudithook(hook)

    from vlib import env as venv  # noqa: F401
    from vlib import cases as cases_mod
    from vlib import harness

    cm = harness.client_mod()
    from elexmodel.handlers import s3 as s3mod

    class FakeClient:
        def put_object(self, **kw):
            body = kw.get("Body")
            log["puts"].append(dict(Bucket=kw.get("Bucket"), Key=kw.get("Key"), ContentType=kw.get("ContentType"),
                                    n=len(body) if body is not None else None, t=tick()))
            return {"ResponseMetadata": {"HTTPStatusCode": 200}}

        def get_object(self, **kw):
            import datetime
            import io

            key = kw.get("Key")
            if spec.get("inputs") == "cli":
                if key.endswith(f"/config/{el.election_id}.json"):
                    return {"Body": io.BytesIO(json.dumps(el.config).encode()), "LastModified": datetime.datetime(2030, 1, 1)}
                if key.endswith(f"/data/{el.office}/data_{el.geo_type}.csv"):
                    full = el.pre.merge(el.truth.rename(columns={c: f"results_{c}" for c in ("turnout", "dem", "gop")}),
                                        on="geographic_unit_fips", how="left")
                    return {"Body": io.BytesIO(full.to_csv(index=False).encode()),
                            "LastModified": datetime.datetime(2030, 1, 1)}
            if spec.get("inputs") == "storage":
                log["gets"] = log.get("gets", 0) + 1
                if key.endswith(f"/config/{el.election_id}.json"):
                    return {"Body": io.BytesIO(json.dumps(el.config).encode()), "LastModified": datetime.datetime(2030, 1, 1)}
                if key.endswith(f"/data/{el.office}/data_{el.geo_type}.csv"):
                    return {"Body": io.BytesIO(el.pre.to_csv(index=False).encode()),
                            "LastModified": datetime.datetime(2030, 1, 1)}
            raise RuntimeError(f"unexpected remote read {key}")

    s3mod.boto3.client = lambda *a, **k: FakeClient()

    est = spec["estimator"]
    o = dict(estimator=est, el_n_units=60, el_n_states=2, feed_n_unexpected=1, feed_n_missing=0, threshold=100,
             policy="drop", alphas=[0.7, 0.9], aggregates=["postal_code", "county_fips", "unit"], allow_geo_county=False,
             feed_frac_reporting=0.75 if spec["gate"] == "pass" else 0.04, district=False, n_estimands=1,
             mp=dict(fit_turnout_outlier_model=False, fit_margin_outlier_model=False), fixed_effects={})
    if est == "bootstrap":
        o["B"] = 10
        o["lambda_"] = 1.0
    o["rare_options"] = False  # persistence is the subject here, not the corners of the bootstrap's options
    if spec.get("inputs") == "cli":  # the mock live feed of the command line is cut from a file with dem / gop / turnout
        o.update(allow_pointer_config=False, extra_state_rows=False, rare_options=False)
    el, feed, status, call = cases_mod.build(spec["seed"], PROPERTY, 1000 * spec["i"] + 1, o)
    call["model_parameters"].pop("unit_blocklist", None)
    # make the gate outcome deterministic: exactly 3 baseline units at 100 % (fail) / at least 45 (pass)
    base_ids = set(el.pre[el.pre.baseline_turnout > 0].geographic_unit_fips)
    want = 3 if spec["gate"] == "fail" else (0 if spec["gate"] == "fail-empty" else 45)
    if spec["gate"] == "fail-blocklisted":
        # plenty of units report, but every state of the election is on the blocklist: nothing is left to model
        call["model_parameters"]["postal_code_blocklist"] = sorted(set(el.pre.postal_code.astype(str)))
    n_rep = 0
    for j in range(len(feed)):
        if feed.loc[j, "geographic_unit_fips"] not in base_ids:
            continue
        if n_rep < want:
            feed.loc[j, "percent_expected_vote"] = 100.0
            if feed.loc[j, "results_turnout"] <= 0:
                b = el.pre[el.pre.geographic_unit_fips == feed.loc[j, "geographic_unit_fips"]].iloc[0]
                feed.loc[j, ["results_turnout", "results_dem", "results_gop"]] = [int(b.baseline_turnout), int(b.baseline_dem), int(b.baseline_gop)]
            n_rep += 1
        elif spec["gate"] in ("fail", "fail-empty"):
            feed.loc[j, "percent_expected_vote"] = 0.0
    if spec["gate"] == "fail-empty":  # polls have just closed: the feed lists every unit, none has a single vote
        feed[["results_turnout", "results_dem", "results_gop"]] = 0
        feed["percent_expected_vote"] = 0.0
    call["model_parameters"].update(turnout_factor_lower=0.0, turnout_factor_upper=1e9)
    traces = []
    shared_dict = copy.deepcopy(call["model_parameters"])
    if spec.get("args") == "omitted" and spec["gate"] == "fail":
        pass  # defaults (outlier models on) only lower the number of modelled units further
    variants = [(so, False) for so in SUBSETS]
    if est == "bootstrap":
        variants += [(so, True) for so in SUBSETS]
    if spec["i"] % 2 == 0 and spec.get("args") != "copied":
        variants = list(reversed(variants))  # history in which everything is requested first, nothing last
    # every third child: ONE client answers all polls of the child (same election, same feed, only what is to be
    # persisted changes from poll to poll), as a long-running service does; what a poll persists must not depend on
    # what the client did before
    one_client = cm.ModelClient() if spec.get("same_client") and spec.get("inputs") != "cli" else None
    with harness.patched() as p:
        if est == "gaussian":
            harness.fast_boot_sigma(p, 100)
        for so, summary in variants:
            for d in ("data", "config"):
                shutil.rmtree(os.path.join(cwd, d), ignore_errors=True)
            log.update(t=0, puts=[], files=[], sockets=[])
            c2 = copy.deepcopy(call)
            c2["save_output"] = list(so)
            mode = spec.get("args", "copied")
            shared_mp = None if mode == "copied" else (shared_dict if mode == "shared" else harness.OMIT)
            client = one_client or cm.ModelClient()
            tr = dict(same_client=one_client is not None, save_output=list(so), summary=summary, election_id=el.election_id, office=el.office,
                      geo_type=el.geo_type, cwd=cwd, tables=[], n_agg=len([a for a in c2["aggregates"] if a != "unit"]))
            log["active"] = True
            try:
                if spec.get("inputs") == "cli":
                    from click.testing import CliRunner

                    from elexmodel.cli import cli as cli_main

                    argv = [el.election_id, "--office_id", el.office, "--geographic_unit_type", el.geo_type,
                            "--pi_method", est, "--percent_reporting", "80" if spec["gate"] == "pass" else "3",
                            "--aggregates", "postal_code", "--aggregates", "unit",
                            "--model_parameters", repr(c2["model_parameters"])]
                    for e_ in c2["estimands"]:
                        argv += ["--estimands", e_]
                    for a_ in c2["prediction_intervals"]:
                        argv += ["--prediction_intervals", str(a_)]
                    for f_ in c2["features"]:
                        argv += ["--features", f_]
                    for o_ in so:  # nothing at all when the subset is empty
                        argv += ["--save_output", o_]
                    if summary:
                        argv += ["--national_summary"]
                    r_ = CliRunner().invoke(cli_main, argv, catch_exceptions=True)
                    exc = r_.exception if not isinstance(r_.exception, SystemExit) or r_.exit_code != 0 else None
                    res = {k: None for k in ["state_data", "unit_data"] + (["nat_sum_data"] if summary else [])}
                    tr["t_outcome"] = tick()
                    tr["cli"] = True
                    raise _Done()
                res, exc = harness.run_estimates(el, feed, c2, client=client, shared_model_parameters=shared_mp,
                                                 inputs_from_storage=(spec.get("inputs") == "storage"))
                tr["t_outcome"] = tick()
                if exc is None and summary:
                    client.get_national_summary_votes_estimates(None, 0, c2["prediction_intervals"])
                    res = client.results_handler.final_results
            except _Done:
                pass
            except Exception as e:  # noqa: BLE001
                exc = e
            finally:
                log["active"] = False
            if exc is None:
                tr["outcome"] = "ok"
                tr["tables"] = sorted(res.keys())
            elif isinstance(exc, cm.ModelNotEnoughSubunitsException):
                tr["outcome"] = "not_enough"
            else:
                tr["outcome"] = "error"
                tr["exc_type"] = type(exc).__name__
                tr["exc_msg"] = str(exc)[:300]
            tr["puts"], tr["files"], tr["sockets"] = list(log["puts"]), list(log["files"]), list(log["sockets"])
            traces.append(tr)
    for d in ("data", "config"):
        shutil.rmtree(os.path.join(cwd, d), ignore_errors=True)
    sys.stdout.write("\n" + json.dumps(traces) + "\n")
    sys.stdout.flush()
    os._exit(0)


class _Done(Exception):
    pass


if __name__ == "__main__":
    if len(sys.argv) >= 3 and sys.argv[1] == "child":
        child(json.loads(sys.argv[2]))
