"""C08 - the national summary is bounded, ordered, and depends only on the contests."""
import copy

import numpy as np

from .. import cases as cases_mod
from .. import gen, harness

PROPERTY = "C08"
LEVEL = "exploration"
RULE = ("real bootstrap runs on generated elections (2-4 states or 3-12 districts, random contest weights and base, "
        "1-3 levels, random called/stopped contests, hard-threshold and sigmoid modes, with and without imposed "
        "correlation); the national summary is requested after each of several aggregate lists (contest level first / "
        "last / in the middle, with counties, classifications, unit) and must be identical and never fail. Per run: "
        "ordering, range and prediction formula against the returned contest table, invariance of the bounds under "
        "replacement of the stored draws of called contests, rejection of a wrong-size weight dictionary. "
        "Non-trivial: election with >=1 uncalled contest whose draws straddle zero; distinct = (office kind, "
        "#contests, mode, correlation, calls?, stops?, #levels, #aggregate orders)")
ASSUMPTIONS = ["contest names are '<state>' or '<state>_<district>' as produced by the model's own grouping",
               "draw matrices are read from the model object after the run (divided_error_B_1/2)"]
BATCH = {"quick": 3, "thorough": 10}
BUDGET = {"quick": 150, "thorough": 1500}
MIN_NONTRIVIAL = {"quick": 10, "thorough": 30}
N = {"quick": 60, "thorough": 1500}
CASE_TIMEOUT = 900


def cases(tier, seed):
    return [dict(seed=seed, i=i) for i in range(N[tier])]


def aggregate_orders(rng, el, k):
    top = ["postal_code"] if not el.district else ["postal_code", "district"]
    finer = ["county_fips", "county_classification", "unit"]
    outs = [list(top)]
    cand = [
        top + ["county_fips"], ["county_fips"] + top, top + ["county_classification", "county_fips", "unit"],
        ["unit", "county_fips"] + list(reversed(top)), ["county_classification"] + top + ["county_fips"],
        ["county_fips", "county_classification"] + top[:1] + ["unit"] + top[1:],
    ]
    if el.district:
        cand += [["district"], ["district", "county_fips"], ["county_fips", "postal_code"]]
    idx = rng.permutation(len(cand))[: k - 1]
    outs += [cand[i] for i in idx]
    if el.meta.get("statewide_with_district"):
        # a statewide office whose baseline also carries a (congressional) district column and whose config allows
        # that aggregate: for this office "district" is one more finer aggregate, requested before or after the states
        extra = [["postal_code", "district"], ["district", "postal_code"], ["postal_code", "county_fips", "district"],
                 ["district", "unit", "postal_code"]]
        j = rng.permutation(len(extra))[:2]
        outs = outs[: max(1, k - 2)] + [extra[i] for i in j]
    return outs


def build(spec):
    i = spec["i"]
    rng = gen.rng_for(spec["seed"], PROPERTY, i, salt=5)
    district = bool(i % 3 == 2)
    o = dict(estimator="bootstrap", district=district, el_n_states=int(rng.integers(2, 5)) if not district else int(rng.integers(1, 3)),
             el_n_units=int(rng.integers(80, 200)) if not district else int(rng.integers(150, 300)),
             feed_frac_reporting=float(rng.uniform(0.3, 0.7)), feed_n_unexpected=int(rng.choice([0, 1])),
             B=int(gen.choice(rng, [10, 20, 50])), lambda_=float(gen.choice(rng, [0.1, 1.0, 10.0])),
             aggregates=["postal_code"], fixed_effects={}, alphas=gen.random_alphas(rng))
    swd = (not district) and i % 7 == 3
    if swd:
        o.update(feed_n_unexpected=0, allow_geo_county=False, rare_options=False)
    el, feed, status, call = cases_mod.build(spec["seed"], PROPERTY, i, o)
    if swd and "district" not in el.pre.columns:
        # every county lies in one of two districts of its state
        codes = {c: str(1 + k % 2) for k, c in enumerate(sorted(el.pre.county_fips.astype(str).unique()))}
        el.pre["district"] = el.pre.county_fips.astype(str).map(codes)
        for sub in el.config[el.election_id]:
            if "district" not in sub["aggregates"]:
                sub["aggregates"] = [a for a in sub["aggregates"] if a != "unit"] + ["district", "unit"]
        el.meta["statewide_with_district"] = True
    mp = call["model_parameters"]
    mode = int(rng.integers(0, 4))
    mp["agg_model_hard_threshold"] = mode in (0, 1)
    mp["national_summary_correlation"] = mode in (0, 2)
    mp["T"] = float(gen.choice(rng, [10, 200, 5000]))
    return el, feed, status, call, rng


def contests_of(res, el):
    t = res["state_data"] if not el.district else (res.get("district_data") if "district_data" in res else res["state_data"])
    names = []
    for r in t.to_dict(orient="records"):
        names.append(r["postal_code"] if not el.district else f"{r['postal_code']}_{r['district']}")
    return t, names


def run_case(spec, inputs=None):
    el, feed, status, call, rng = build(spec)
    out = dict(violations=[], counters={}, sets={}, nontrivial=False)
    cm = harness.client_mod()
    from elexmodel.models.BootstrapElectionModel import BootstrapElectionModelException

    def V(key, msg, **w):
        out["violations"].append(dict(key=key, msg=msg, witness=w))

    mp = call["model_parameters"]
    mode = ("hard" if mp["agg_model_hard_threshold"] else "sigmoid") + ("+corr" if mp["national_summary_correlation"] else "")
    # first run to learn the contests
    res, exc, client = harness.run_estimates(el, feed, call, want_client=True)
    if exc is not None:
        if isinstance(exc, cm.ModelNotEnoughSubunitsException):
            out["counters"]["not_enough_units"] = 1
        else:
            out["counters"]["run_raised"] = 1
            out["sets"]["raised"] = [harness.exc_info(exc)["type"] + ":" + harness.exc_info(exc)["where"][-70:]]
        return out
    table, names = contests_of(res, el)
    n = len(names)
    # keys deliberately NOT in contest order: the model must align the weights with the contests by name
    weights = {names[j]: int(rng.integers(1, 30)) for j in rng.permutation(n)}
    if rng.random() < 0.3:
        weights = None
    base = float(gen.choice(rng, [0, 0, 3, 17.5]))
    # call lists
    perm = [names[i] for i in rng.permutation(n)]
    k_l, k_r, k_s = (int(rng.integers(0, max(1, n // 3) + 1)) for _ in range(3))
    if rng.random() < 0.3:
        k_l = k_r = k_s = 0
    lhs, rhs = perm[:k_l], perm[k_l:k_l + k_r]
    stop = [names[i] for i in rng.permutation(n)[:k_s]]
    if rng.random() < 0.35:  # calls merged from two sources: a contest may be listed twice in one list
        lhs = lhs + lhs[:1]
        rhs = rhs + rhs[-1:]
        stop = stop + stop[:1]
        out["counters"]["lists_with_repeated_entry"] = 1
    call["lhs_called_contests"], call["rhs_called_contests"], call["stop_model_call"] = lhs, rhs, stop
    alphas = call["prediction_intervals"]
    orders = aggregate_orders(rng, el, 4 if spec["i"] % 2 else 3)
    frames = []
    straddle = False
    for oi, aggs in enumerate(orders):
        c2 = copy.deepcopy(call)
        c2["aggregates"] = aggs
        res, exc, client = harness.run_estimates(el, feed, c2, want_client=True)
        out["counters"]["runs"] = out["counters"].get("runs", 0) + 1
        if exc is not None:
            info = harness.exc_info(exc)
            key = f"C08/estimate-run-raised/{info['type']}"
            if (el.meta.get("statewide_with_district") and "district" in aggs and (lhs or rhs or stop)
                    and isinstance(exc, BootstrapElectionModelException) and "do not exist" in str(exc)):
                # mechanism of the known finding: the (state, district) groups of a statewide office are taken for the
                # contests, so the call lists (which name states) are judged against them
                key += "/statewide-office-with-district-aggregate"
            V(key, f"aggregates={aggs}: get_estimates raised {info['type']}: "
              f"{info['msg']}", aggregates=aggs, exc=info)
            continue
        model = client.model
        try:
            ns = client.get_national_summary_votes_estimates(copy.deepcopy(weights), base, alphas)
        except Exception as e:  # noqa: BLE001
            key = f"C08/summary-raised/{type(e).__name__}"
            if (el.meta.get("statewide_with_district") and "district" in aggs and "postal_code" in aggs
                    and aggs.index("district") > aggs.index("postal_code")):
                key = "C08/summary-raised/statewide-office-with-district-aggregate"  # known finding, see below
            V(key, f"aggregates={aggs}: national summary raised "
              f"{type(e).__name__}: {str(e)[:200]}", aggregates=aggs)
            continue
        out["counters"]["summaries"] = out["counters"].get("summaries", 0) + 1
        row = ns.iloc[0].to_dict()
        frames.append((aggs, {k: (float(v) if k != "estimand" else v) for k, v in row.items()}))
        if oi > 0:
            continue
        # per-run oracles on the first order -------------------------------------------------------------------
        table, names2 = contests_of(res, el)
        wvals = np.array([1.0] * n) if weights is None else np.array([weights[nm] for nm in sorted(weights)], dtype=float)
        total = float(wvals.sum())
        pred = row["agg_pred"]
        for a in alphas:
            lo, hi = row[f"lower_{a}"], row[f"upper_{a}"]
            if not (lo <= pred <= hi):
                side = "lower>pred" if lo > pred else "pred>upper"
                V(f"C08/not-ordered/{mode}/{side}", f"alpha={a}: lower={lo} pred={pred} upper={hi}", alpha=a, row=row)
            if mp["agg_model_hard_threshold"]:
                if lo < base - 1e-9 or hi > base + total + 1e-9:
                    V(f"C08/out-of-range/{mode}", f"alpha={a}: [{lo},{hi}] outside [{base},{base + total}]", row=row)
        if mp["agg_model_hard_threshold"]:
            pm = dict(zip(names2, table["pred_margin"].to_numpy()))
            order = sorted(names2) if weights is None else sorted(weights)
            want = base + sum((1.0 if weights is None else weights[nm]) for nm in order if pm[nm] > 0)
            if abs(pred - round(want, 2)) > 1e-9:
                V(f"C08/prediction-formula/{mode}", f"agg_pred={pred} but base + weights of contests with positive "
                  f"reported margin = {want}", row=row, margins=pm, weights=weights)
        # uncalled contests that straddle zero
        d1 = np.asarray(model.divided_error_B_1)
        d2 = np.asarray(model.divided_error_B_2)
        dist = np.asarray(model.aggregate_pred_margin) - (d1 - d2)
        # contests that are called AND stop-listed are left out of the "contribute no uncertainty" clause: the
        # statement does not say which list wins for them (the code lets the stop list win, as for the bounds in C07)
        called_idx = [i for i, nm in enumerate(names2) if (nm in lhs or nm in rhs) and nm not in stop]
        unc = [i for i in range(n) if not (names2[i] in lhs or names2[i] in rhs)]
        if any((dist[i] > 0).any() and (dist[i] < 0).any() for i in unc):
            straddle = True
        # (c) replace draws of called contests
        if called_idx:
            # weak form: bounds never include the weight of a called contest
            wn = dict(zip(sorted(names2), wvals))
            free = sum(wn[names2[i]] for i in range(n) if i not in called_idx)
            for a in alphas:
                lo, hi = row[f"lower_{a}"], row[f"upper_{a}"]
                if lo < pred - free - 1e-9 or hi > pred + free + 1e-9:
                    V(f"C08/called-contest-weight-in-bound/{mode}", f"alpha={a}: [{lo},{hi}] wider than the weights "
                      f"of uncalled contests ({free}) around {pred}", row=row)
            keep1, keep2 = d1.copy(), d2.copy()
            changed = False
            for trial in range(3):
                m1, m2 = keep1.copy(), keep2.copy()
                for i in called_idx:
                    m1[i] = rng.uniform(-1, 1, size=m1.shape[1]) if trial else np.full(m1.shape[1], 0.9)
                    m2[i] = rng.uniform(-1, 1, size=m2.shape[1]) if trial else np.full(m2.shape[1], -0.9)
                model.divided_error_B_1, model.divided_error_B_2 = m1, m2
                for a in alphas:
                    est = model.get_national_summary_estimates(copy.deepcopy(weights), base, a)["margin"]
                    if abs(est[1] - row[f"lower_{a}"]) > 1e-9 or abs(est[2] - row[f"upper_{a}"]) > 1e-9:
                        changed = (a, est, trial)
            model.divided_error_B_1, model.divided_error_B_2 = keep1, keep2
            out["counters"]["draw_replacements"] = out["counters"].get("draw_replacements", 0) + 3
            if changed:
                a, est, trial = changed
                V(f"C08/called-contest-draws-influence-bounds/{mode}", f"alpha={a}: bounds became [{est[1]},{est[2]}] "
                  f"(were [{row[f'lower_{a}']},{row[f'upper_{a}']}]) after replacing only the draws of called "
                  f"contests", called=[names2[i] for i in called_idx])
        # (f0) the identical request once more on the same client returns the identical frame
        try:
            ns_again = client.get_national_summary_votes_estimates(copy.deepcopy(weights), base, alphas)
            row_again = {k: (float(v) if k != "estimand" else v) for k, v in ns_again.iloc[0].to_dict().items()}
            if row_again != frames[0][1]:
                V(f"C08/repeated-request/identical-request-differs/{mode}", f"first request {frames[0][1]}, identical "
                  f"second request {row_again}")
        except Exception as e:  # noqa: BLE001
            V(f"C08/repeated-request/raised/{type(e).__name__}", f"identical second request raised {type(e).__name__}: "
              f"{str(e)[:200]}")
        # (f) a second summary request on the same client (other weights, base and levels) must be judged on its own:
        # nothing of the first request may survive in the returned frame
        weights2 = None if (weights is not None and rng.random() < 0.3) else {names2[j]: int(rng.integers(1, 40))
                                                                            for j in rng.permutation(n)}
        base2 = base + float(gen.choice(rng, [1, 7, 100]))
        alphas2 = list(dict.fromkeys([alphas[-1]] + [round(float(rng.uniform(0.1, 0.97)), 3)]))
        try:
            ns2 = client.get_national_summary_votes_estimates(copy.deepcopy(weights2), base2, alphas2)
            row2 = ns2.iloc[0].to_dict()
            out["counters"]["repeated_summary_requests"] = out["counters"].get("repeated_summary_requests", 0) + 1
            extra_cols = sorted(c_ for c_ in ns2.columns if c_ not in (["estimand", "agg_pred"] + [f"{b}_{a}" for a in alphas2
                                                                                                 for b in ("lower", "upper")]))
            if extra_cols:
                V("C08/repeated-request/stale-columns", f"second request for levels {alphas2} returned columns "
                  f"{extra_cols} of the first request")
            for a in alphas2:
                direct = model.get_national_summary_estimates(copy.deepcopy(weights2), base2, a)["margin"]
                got2 = [row2.get("agg_pred"), row2.get(f"lower_{a}"), row2.get(f"upper_{a}")]
                if any(g is None or abs(float(g) - float(d_)) > 1e-9 for g, d_ in zip(got2, direct)):
                    V("C08/repeated-request/stale-values", f"second request (base {base2}, alpha {a}) returned "
                      f"{got2} but the model computes {direct}; first request was {row}")
                    break
        except Exception as e:  # noqa: BLE001
            V(f"C08/repeated-request/raised/{type(e).__name__}", f"second summary request raised {type(e).__name__}: "
              f"{str(e)[:200]}")
        # (g) calls are retracted: the contest-level computations are repeated on the SAME model object without any
        # list and the summary is requested again - it must equal the summary of a fresh run without lists
        if (lhs or rhs or stop) and spec["i"] % 2 == 0:
            try:
                rh = client.results_handler
                top = ["postal_code"] if not el.district else ["postal_code", "district"]
                model.get_aggregate_predictions(rh.reporting_units, rh.nonreporting_units, rh.unexpected_units, top, "margin")
                for a in alphas:
                    model.get_aggregate_prediction_intervals(rh.reporting_units, rh.nonreporting_units,
                                                             rh.unexpected_units, top, a, None, "margin")
                retracted = {a: model.get_national_summary_estimates(copy.deepcopy(weights), base, a)["margin"] for a in alphas}
                c0 = copy.deepcopy(c2)
                c0.update(lhs_called_contests=[], rhs_called_contests=[], stop_model_call=[])
                res_f, exc_f, client_f = harness.run_estimates(el, feed, c0, want_client=True)
                if exc_f is None:
                    fresh = {a: client_f.model.get_national_summary_estimates(copy.deepcopy(weights), base, a)["margin"]
                             for a in alphas}
                    out["counters"]["retraction_histories"] = out["counters"].get("retraction_histories", 0) + 1
                    for a in alphas:
                        if any(abs(float(x) - float(y)) > 1e-9 for x, y in zip(retracted[a], fresh[a])):
                            V("C08/summary-depends-on-retracted-calls", f"alpha={a}: after retracting lhs={lhs} rhs={rhs} "
                              f"stop={stop} on the same model the summary is {retracted[a]}, a fresh run without lists "
                              f"gives {fresh[a]}")
                            break
            except Exception as e:  # noqa: BLE001
                V(f"C08/retraction-history-raised/{type(e).__name__}", f"{type(e).__name__}: {str(e)[:200]}")
        # (e) wrong-size weights
        bad = {f"X{j}": 1 for j in range(n + 1)}
        try:
            model.get_national_summary_estimates(bad, base, alphas[0])
            V("C08/wrong-size-weights-accepted", f"weight dict of size {n + 1} accepted for {n} contests")
        except BootstrapElectionModelException:
            out["counters"]["wrong_size_rejected"] = out["counters"].get("wrong_size_rejected", 0) + 1
        except Exception as e:  # noqa: BLE001
            V(f"C08/wrong-size-weights-other-error/{type(e).__name__}", f"{type(e).__name__}: {e}")
    # (d) history independence
    if len(frames) >= 2:
        ref_aggs, ref_row = frames[0]
        for aggs, row in frames[1:]:
            out["counters"]["order_pairs"] = out["counters"].get("order_pairs", 0) + 1
            if row != ref_row:
                key = "C08/summary-depends-on-aggregates"
                if (el.meta.get("statewide_with_district") and "district" in aggs and "postal_code" in aggs
                        and aggs.index("district") > aggs.index("postal_code")):
                    # mechanism of the known finding: "district" computed after the states overwrites the contest state
                    key += "/statewide-office-with-district-aggregate"
                V(key, f"summary after aggregates={aggs} is {row} but after "
                  f"{ref_aggs} it is {ref_row}", a=aggs, b=ref_aggs)
            elif el.meta.get("statewide_with_district") and "district" in aggs:
                out["counters"]["statewide_district_lists_with_equal_summary"] = out["counters"].get(
                    "statewide_district_lists_with_equal_summary", 0) + 1
    out["nontrivial"] = straddle
    out["sig"] = [bool(el.district), n, mode, bool(lhs or rhs), bool(stop), len(alphas), len(orders), weights is None]
    out["sets"]["modes"] = [mode]
    out["sets"]["aggregate_lists"] = [",".join(a) for a in orders]
    if out["violations"]:
        out["inputs"] = gen.materialise(el, feed, call)
    if spec["i"] % 13 == 0 and frames:
        out["sample"] = gen.jsonable(dict(election=el.meta, contests=names, weights=weights, base=base, lhs=lhs, rhs=rhs,
                                          stop=stop, mode=mode, aggregate_lists=orders, summary=frames[0][1]))
    return out


def finalize(agg):
    c = agg["counters"]
    if not c.get("order_pairs"):
        return "no aggregate-order comparison", {}
    if not c.get("draw_replacements"):
        return "no run with called contests", {}
    if len(agg["sets"].get("modes", ())) < 4:
        return f"modes seen: {sorted(agg['sets'].get('modes', ()))}", {}
    return None, {}
