"""C15 - gaussian intervals use a group's own calibration if big enough, else its parent."""
import math

import numpy as np
from scipy import stats

from .. import cases as cases_mod
from .. import gen, harness
from .. import reference as ref

PROPERTY = "C15"
LEVEL = "exploration"
RULE = ("real gaussian get_estimates runs on elections whose county sizes are spread so that groups hold 0, 1, a few, "
        "exactly-around-10 and many calibration units (also fewer than 10 calibration units overall, groups present "
        "only among nonreporting units, 1-4 states, district offices giving three-level keys), beta and winsorize "
        "varied. A wrapper on GaussianElectionModel.get_aggregate_prediction_intervals copies its inputs, the "
        "per-level unadjusted unit bounds, modeled_bounds_agg and the returned series; an independent reference walks "
        "each nonreporting group up to the first ancestor holding >= min(10, n_cal) calibration units, recomputes that "
        "ancestor's five statistics (loop-based weighted median, the real seeded boot_sigma, inflation) and the bounds "
        "formula, and compares with modeled_bounds_agg (one row per group, 1e-12) and with the published columns "
        "(exact). Non-trivial: aggregate call in which >=2 different fallback levels occur; distinct = (aggregate list "
        "length, fallback levels used, alpha bucket, winsorize, n_cal<10?)")
ASSUMPTIONS = ["the bootstrapped scale is obtained from the repository's own boot_sigma with the model's seed "
               "(300 resamples); its value is trusted, its assignment to groups is what is checked",
               "a published bound may differ by one vote when the unrounded value is within 1e-6 of x.5 (counted)"]
BATCH = {"quick": 5, "thorough": 15}
BUDGET = {"quick": 150, "thorough": 1500}
MIN_NONTRIVIAL = {"quick": 15, "thorough": 40}
N = {"quick": 170, "thorough": 4000}


def cases(tier, seed):
    return [dict(seed=seed, i=i) for i in range(N[tier])]


def build(spec):
    i = spec["i"]
    rng = gen.rng_for(spec["seed"], PROPERTY, i, salt=1)
    small = (i % 6 == 5)
    o = dict(estimator="gaussian", district=bool(i % 4 == 3),
             el_n_units=int(rng.integers(18, 45)) if small else int(rng.integers(120, 420)),
             el_county_size_spread=1.0, el_counties_per_state=int(rng.integers(2, 7)),
             feed_frac_reporting=float(rng.uniform(0.45, 0.8)), feed_n_missing=0,
             n_estimands=int(gen.choice(rng, [1, 1, 2])), alphas=sorted(set(gen.random_alphas(rng))),
             must_aggregates=["postal_code", "county_fips"], threshold=100)
    el, feed, status, call = cases_mod.build(spec["seed"], PROPERTY, i, o)
    mp = call["model_parameters"]
    mp["beta"] = float(gen.choice(rng, [0.5, 1, 3]))
    mp["winsorize"] = bool(rng.random() < 0.4)
    if rng.random() < 0.5:
        mp["seed"] = int(rng.integers(0, 10000))
    mp.pop("lambda_", None)
    if i % 3 == 0:
        call["save_output"] = ["conformalization"]  # the diagnostics of every aggregate fit are written to storage
    return el, feed, status, call


class Recorder:
    def __init__(self):
        self.calls = []
        self.tables = []

    def install(self, p):
        harness.client_mod()
        from elexmodel.handlers.data.ModelResults import ModelResultsHandler
        from elexmodel.models.GaussianElectionModel import GaussianElectionModel

        rec = self
        orig = GaussianElectionModel.get_aggregate_prediction_intervals
        orig_add = ModelResultsHandler.add_agg_predictions

        def gapi(self_, reporting_units, nonreporting_units, unexpected_units, aggregate, alpha,
                 unit_prediction_intervals, estimand, **kwargs):
            c = dict(aggregate=list(aggregate), alpha=alpha, estimand=estimand,
                     rep=reporting_units.copy(), non=nonreporting_units.copy(), une=unexpected_units.copy(),
                     cal=unit_prediction_intervals.conformalization.copy(),
                     lo_raw=np.array(self_.alpha_to_nonreporting_lower_bounds.get(alpha, []), dtype=float).copy(),
                     hi_raw=np.array(self_.alpha_to_nonreporting_upper_bounds.get(alpha, []), dtype=float).copy(),
                     settings=dict(beta=self_.model_settings.get("beta", 1),
                                   winsorize=self_.model_settings.get("winsorize", False),
                                   seed=self_.model_settings.get("seed", 4191)))
            self_.modeled_bounds_agg = None
            r = orig(self_, reporting_units, nonreporting_units, unexpected_units, aggregate, alpha,
                     unit_prediction_intervals, estimand, **kwargs)
            c["modeled"] = None if self_.modeled_bounds_agg is None else self_.modeled_bounds_agg.copy()
            c["lower"] = np.asarray(r[0], dtype=float).copy()
            c["upper"] = np.asarray(r[1], dtype=float).copy()
            rec.calls.append(c)
            return r

        def add(self_, estimand, aggregate, estimates_df, agg_interval_predictions):
            n = len(self_.prediction_interval_alphas)
            rec.tables.append(dict(estimand=estimand, aggregate=aggregate, keys=estimates_df.copy(),
                                   calls=rec.calls[-n:]))
            return orig_add(self_, estimand, aggregate, estimates_df, agg_interval_predictions)

        p.set(GaussianElectionModel, "get_aggregate_prediction_intervals", gapi)
        p.set(ModelResultsHandler, "add_agg_predictions", add)


def wmedian_candidates(x, w):
    """Loop-based weighted median with the tie rule of the statement's mechanism (mean of neighbours when the
    cumulative weight hits one half exactly).  Returns the set of acceptable values (floating-point boundary)."""
    order = sorted(range(len(x)), key=lambda k: x[k])
    tot = sum(w)
    cum = 0.0
    xs = [x[k] for k in order]
    ws = [w[k] / tot for k in order]
    if ws[0] > 0.5 + 1e-12:
        return [xs[0]]
    cands = []
    if abs(ws[0] - 0.5) <= 1e-12 and ws[0] > 0.5:
        cands.append(xs[0])
    idx = None
    for k in range(len(xs)):
        cum += ws[k]
        if cum <= 0.5 + 1e-12:
            idx = k
            cum_at = cum
    if idx is None:
        return [xs[0]]
    nxt = xs[min(idx + 1, len(xs) - 1)]
    if abs(cum_at - 0.5) <= 1e-12:
        cands += [(xs[idx] + nxt) / 2, nxt, xs[idx]]
        if idx + 2 < len(xs):
            cands.append(xs[idx + 2] if False else nxt)
    else:
        cands.append(nxt)
    return cands


def judge_call(c, keys_df, out, V):
    from elexmodel.utils import math_utils

    L = c["aggregate"]
    e = c["estimand"]
    alpha = c["alpha"]
    wcol = f"last_election_results_{e}"
    cal = ref.rows(c["cal"])
    non = ref.rows(c["non"])
    n_cal = len(cal)
    if not non:
        return None
    T = min(10, n_cal)
    # calibration units by prefix
    by_prefix = {}
    for r in cal:
        for j in range(len(L) + 1):
            by_prefix.setdefault(tuple(r[k] for k in L[:j]), []).append(r)
    groups = {}
    for i, r in enumerate(non):
        groups.setdefault(tuple(r[k] for k in L), []).append(i)
    stats_cache = {}
    levels_used = set()
    expected = {}
    q = (3 + alpha) / 4
    for g, idxs in groups.items():
        anc = None
        for j in range(len(L), -1, -1):
            if len(by_prefix.get(g[:j], [])) >= T:
                anc = g[:j]
                break
        if anc is None:
            V("C15/no-ancestor-with-enough-units", f"group {g}: no ancestor holds {T} calibration units (n_cal={n_cal})")
            continue
        levels_used.add(len(L) - len(anc))
        if anc not in stats_cache:
            S = by_prefix[anc]
            w = [float(r[wcol]) for r in S]
            lo = np.array([float(r["lower_bounds"]) for r in S])
            hi = np.array([float(r["upper_bounds"]) for r in S])
            stats_cache[anc] = dict(
                var_inflate=sum(x * x for x in w) / (sum(w) ** 2),
                mu_lower=wmedian_candidates(lo.tolist(), w), mu_upper=wmedian_candidates(hi.tolist(), w),
                sigma_lower=float(c["settings"]["beta"] * math_utils.boot_sigma(lo, conf=q, winsorize=c["settings"]["winsorize"],
                                                                             seed=c["settings"]["seed"])),
                sigma_upper=float(c["settings"]["beta"] * math_utils.boot_sigma(hi, conf=q, winsorize=c["settings"]["winsorize"],
                                                                             seed=c["settings"]["seed"])),
                n=len(S))
        expected[g] = (anc, stats_cache[anc], idxs)
    out["counters"]["groups_judged"] = out["counters"].get("groups_judged", 0) + len(expected)
    for lv in levels_used:
        out["counters"][f"fallback_level_{lv}_of_{len(L)}"] = out["counters"].get(f"fallback_level_{lv}_of_{len(L)}", 0) + 1
    # modeled_bounds_agg: exactly one row per nonreporting group with the ancestor's statistics ------------------
    mb = c["modeled"]
    chosen = {}
    if mb is None:
        V("C15/modeled-bounds-missing", f"aggregate {L}: modeled_bounds_agg not set")
    else:
        rows = {}
        for r in ref.rows(mb):
            rows.setdefault(tuple(r[k] for k in L), []).append(r)
        for g, (anc, st, idxs) in expected.items():
            rr = rows.get(g, [])
            if len(rr) != 1:
                V(f"C15/modeled-bounds-rows/{'missing' if not rr else 'duplicated'}", f"aggregate {L} group {g}: "
                  f"{len(rr)} rows in modeled_bounds_agg (ancestor {anc}, n={st['n']}, T={T})", group=g)
                continue
            r = rr[0]
            used = len(L) - len(anc)
            bad = []
            for name in ("var_inflate", "sigma_lower", "sigma_upper"):
                col = name if name == "var_inflate" else name + "_bound"
                v = r.get(col)
                if v is None or not math.isfinite(float(v)) or not ref.close(v, st[name], rel=1e-12, abs_=1e-15):
                    bad.append((col, v, st[name]))
            for name in ("mu_lower", "mu_upper"):
                v = r.get(name + "_bound")
                if v is None or not math.isfinite(float(v)) or not any(ref.close(v, cnd, rel=1e-12, abs_=1e-15)
                                                                        for cnd in st[name]):
                    bad.append((name + "_bound", v, st[name]))
            if bad:
                V(f"C15/statistics-of-wrong-group/fallback-level-{used}", f"aggregate {L} group {g}: expected the "
                  f"statistics of {anc if anc else 'all calibration units'} (n={st['n']}, T={T}) but {bad[:2]}",
                  group=g, ancestor=anc, mismatches=bad[:3])
            chosen[g] = r
        extra = [g for g in rows if g not in expected]
        if extra:
            V("C15/modeled-bounds-rows/extra", f"aggregate {L}: rows for groups without nonreporting units {extra[:3]}")
    # bounds formula vs published columns -----------------------------------------------------------------------
    keyrows = ref.rows(keys_df)
    counted_col = f"results_{e}"
    for pos, kr in enumerate(keyrows):
        g = tuple(kr[k] for k in L)
        pub_lo, pub_hi = c["lower"][pos] if pos < len(c["lower"]) else None, c["upper"][pos] if pos < len(c["upper"]) else None
        if g not in expected:
            # no nonreporting unit: zero-width interval at the counted votes
            cnt_votes = kr[counted_col]
            if pub_lo != cnt_votes or pub_hi != cnt_votes:
                V("C15/complete-group-interval", f"aggregate {L} group {g}: no nonreporting units but interval "
                  f"[{pub_lo},{pub_hi}] != counted {cnt_votes}")
            continue
        anc, st, idxs = expected[g]
        r = chosen.get(g)
        if r is None:
            continue
        W = sum(float(non[i][wcol]) for i in idxs)
        W2 = sum(float(non[i][wcol]) ** 2 for i in idxs)
        S_lo = sum(float(non[i][wcol]) * c["lo_raw"][i] for i in idxs)
        S_hi = sum(float(non[i][wcol]) * c["hi_raw"][i] for i in idxs)
        part = sum(float(non[i][counted_col]) for i in idxs)
        # use the (verified) statistics of the chosen row so that the formula is checked on its own
        vi, ml, mu, sl, su = (float(r[k]) for k in ("var_inflate", "mu_lower_bound", "mu_upper_bound",
                                                    "sigma_lower_bound", "sigma_upper_bound"))
        sd = math.sqrt(W2 + vi * W * W)
        # a zero scale (all calibration scores of the ancestor identical) makes the normal distribution a point mass
        lb = S_lo - (stats.norm.ppf(q, loc=W * ml, scale=sl * sd) if sl * sd > 0 else W * ml)
        ub = S_hi + (stats.norm.ppf(q, loc=W * mu, scale=su * sd) if su * sd > 0 else W * mu)
        if sl * sd == 0 or su * sd == 0:
            out["counters"]["groups_with_zero_scale"] = out["counters"].get("groups_with_zero_scale", 0) + 1
        counted_total = float(kr[counted_col])  # counted votes of the whole group (incl. nonreporting partials)
        fixed = counted_total - part            # reporting + unexpected
        want_lo = max(W + lb, part) + fixed
        want_hi = max(W + ub, part) + fixed
        for nm, want, got in (("lower", want_lo, pub_lo), ("upper", want_hi, pub_hi)):
            if got is None or not math.isfinite(float(got)):
                V(f"C15/published-{nm}-not-finite", f"aggregate {L} group {g} alpha={alpha}: {nm}={got}")
                continue
            if float(got) != float(np.round(want)):
                if abs(float(got) - want) <= 1.0 and abs((want % 1.0) - 0.5) < 1e-6:
                    out["counters"]["rounding_ties"] = out["counters"].get("rounding_ties", 0) + 1
                    continue
                V(f"C15/published-{nm}-differs-from-formula", f"aggregate {L} group {g} alpha={alpha}: published {nm} "
                  f"{got} but the formula with the group's own sums and its ancestor's statistics gives {want}",
                  group=g, want=want, got=float(got))
    out["counters"]["aggregate_calls"] = out["counters"].get("aggregate_calls", 0) + 1
    return dict(levels=sorted(levels_used), L=len(L), n_cal=n_cal)


def run_case(spec, inputs=None):
    if inputs is not None:
        el, feed, call = gen.dematerialise(inputs)
        status = {}
    else:
        el, feed, status, call = build(spec)
    out = dict(violations=[], counters={}, sets={}, sigs=[])

    def V(key, msg, **w):
        if len(out["violations"]) < 12:
            out["violations"].append(dict(key=key, msg=msg, witness=w))

    rec = Recorder()
    with harness.patched() as p:
        harness.fast_boot_sigma(p)
        rec.install(p)
        if call["save_output"]:
            from elexmodel.handlers import s3 as s3mod

            puts = []

            class _Store:
                def put_object(self, **kw):
                    puts.append(kw.get("Key"))
                    return {"ResponseMetadata": {"HTTPStatusCode": 200}}

            p.set(s3mod.boto3, "client", lambda *a, **k: _Store())
            out["counters"]["runs_saving_conformalization"] = 1
        res, exc = harness.run_estimates(el, feed, call)
        cm = harness.client_mod()
        if exc is not None:
            if isinstance(exc, cm.ModelNotEnoughSubunitsException):
                out["counters"]["not_enough_units"] = 1
            else:
                info = harness.exc_info(exc)
                out["counters"]["run_raised"] = 1
                out["sets"]["raised"] = [info["type"] + ":" + info["where"][-70:] + ":" + info["msg"][:60]]
            return out
        out["counters"]["runs"] = 1
        for t in rec.tables:
            for c in t["calls"]:
                info = judge_call(c, t["keys"], out, V)
                if info is None:
                    continue
                if len(info["levels"]) >= 2:
                    out["sigs"].append([info["L"], info["levels"], min(int(c["alpha"] * 10), 9),
                                        bool(c["settings"]["winsorize"]), info["n_cal"] < 10])
                out["sets"].setdefault("level_table", []).append([info["L"], info["levels"]])
    out["nontrivial"] = bool(out["sigs"])
    if out["violations"]:
        out["inputs"] = gen.materialise(el, feed, call)
    if spec["i"] % 23 == 0 and rec.calls:
        c0 = rec.calls[-1]
        out["sample"] = gen.jsonable(dict(election=el.meta, call=call, last_aggregate=c0["aggregate"], alpha=c0["alpha"],
                                          n_cal=len(c0["cal"]), modeled_bounds_agg=c0["modeled"],
                                          published=[c0["lower"][:4], c0["upper"][:4]]))
    return out


def finalize(agg):
    c = agg["counters"]
    if not c.get("aggregate_calls"):
        return "no aggregate interval computation observed", {}
    need = ["fallback_level_0_of_1", "fallback_level_1_of_1", "fallback_level_0_of_2", "fallback_level_1_of_2",
            "fallback_level_2_of_2"]
    missing = [k for k in need if not c.get(k)]
    if missing:
        return f"fallback levels never exercised: {missing}", {}
    return None, dict(level_table={k: v for k, v in c.items() if k.startswith("fallback_level_")})
