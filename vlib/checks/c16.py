"""C16 - fitting and prediction design matrices are aligned and identifiable."""
import numpy as np
import pandas as pd

from .. import cases as cases_mod
from .. import gen, harness

PROPERTY = "C16"
LEVEL = "exploration"
RULE = ("boundary contracts on the real Featurizer: (a) every prepare_data / filter_to_active_features / "
        "generate_holdout_data call made by the three estimators, the strata featurizer and the outlier model during "
        "full get_estimates runs, and (b) direct hostile calls on random frames (levels seen only in holdout rows, only "
        "in unexpected / non-modelled rows, only in fitting rows; one level per effect; dict selections naming absent "
        "levels; 0-3 effects; separate-state models; with intercept, and without only when there are no effects). "
        "Oracle per featurizer instance: column order, dummy value of every row against its (pooled) level, exactly one "
        "observed level per effect absorbed, fitted columns = levels observed on fitting rows - 1 and non-constant "
        "there, holdout rows: seen level -> indicator, absorbed -> zeros, unseen -> 1/(k+1) on the k fitted columns, "
        "centring over all rows, 'other' pooling, per-state copies only for states with reporting units. "
        "Non-trivial: frame with >=1 unseen-level holdout row and >=2 effects, or a full-run featurizer with an "
        "unseen level; distinct = (source, #effects, selection kinds, intercept, separate states, unseen?, "
        "single-level effect?)")
ASSUMPTIONS = ["fixed-effect names that are prefixes of one another are not generated",
               "the conformal interval fit uses only the first train_rows fitting rows, where a fitted dummy can be "
               "constant; that slice is counted (degenerate_train_slices), not asserted",
               "rows with a missing (NaN) level (unexpected units) are excluded from the holdout rule"]
BATCH = {"quick": 10, "thorough": 40}
BUDGET = {"quick": 120, "thorough": 1500}
MIN_NONTRIVIAL = {"quick": 20, "thorough": 50}
N_FULL = {"quick": 200, "thorough": 5000}
N_DIRECT = {"quick": 160, "thorough": 4000}
DIRECT_PER_SPEC = 100
ORDER = ["intercept", "baseline_normalized_margin"]


def cases(tier, seed):
    out = [dict(part="full", seed=seed, i=i) for i in range(N_FULL[tier])]
    out += [dict(part="direct", seed=seed, i=900000 + i) for i in range(N_DIRECT[tier])]
    return out


class Monitor:
    """State per Featurizer instance: the frame passed to prepare_data and what it returned."""

    def __init__(self, out, source):
        self.out = out
        self.source = source
        self.inst = {}
        self.sigs = []

    def V(self, key, msg, **w):
        if len(self.out["violations"]) < 30:
            self.out["violations"].append(dict(key=f"C16/{key}", msg=f"[{self.source}] {msg}", witness=w))

    def count(self, k, n=1):
        self.out["counters"][k] = self.out["counters"].get(k, 0) + n

    def install(self, p):
        harness.client_mod()
        from elexmodel.handlers.data.Featurizer import Featurizer

        mon = self
        o_prep, o_filt, o_hold = Featurizer.prepare_data, Featurizer.filter_to_active_features, Featurizer.generate_holdout_data

        def prepare_data(self_, df, center_features=True, scale_features=True, add_intercept=True):
            snap = df.copy()
            r = o_prep(self_, df, center_features=center_features, scale_features=scale_features,
                       add_intercept=add_intercept)
            mon.after_prepare(self_, snap, r, center_features, scale_features, add_intercept)
            return r

        def filter_to_active_features(self_, df):
            r = o_filt(self_, df)
            if not getattr(self_, "_verif_in_holdout", False):
                mon.after_filter(self_, df, r)
            return r

        def generate_holdout_data(self_, df):
            snap = df.copy()
            self_._verif_in_holdout = True
            try:
                r = o_hold(self_, df)
            finally:
                self_._verif_in_holdout = False
            mon.after_holdout(self_, snap, r)
            return r

        o_init = Featurizer.__init__

        def __init__(self_, features, fixed_effects, *a, **kw):
            # what the USER asked for (the statement speaks of the levels the user selected), kept apart from whatever
            # the constructor derives from it
            import copy as _copy

            self_._verif_requested = _copy.deepcopy(fixed_effects)
            o_init(self_, features, fixed_effects, *a, **kw)

        p.set(Featurizer, "__init__", __init__)
        p.set(Featurizer, "prepare_data", prepare_data)
        p.set(Featurizer, "filter_to_active_features", filter_to_active_features)
        p.set(Featurizer, "generate_holdout_data", generate_holdout_data)

    # -----------------------------------------------------------------------------------------------------------
    def after_prepare(self, fz, df, x, center, scale, add_intercept):
        self.count("prepare_data_calls")
        st = dict(df=df, add_intercept=add_intercept, n=len(df))
        self.inst[id(fz)] = st
        cols = list(x.columns)
        if cols != list(fz.complete_features):
            self.V("prepare/columns-not-complete-features", f"returned columns {cols[:8]} != complete_features")
        self.check_order(cols, "prepare")
        fes = list(fz.fixed_effect_cols)
        req = getattr(fz, "_verif_requested", None)
        if req is not None:
            self.count("requests_seen")
            want_cols = list(req) if not isinstance(req, dict) else list(req.keys())
            if sorted(want_cols) != sorted(fes):
                self.V("prepare/effects-differ-from-request", f"fixed effects used {fes}, requested {want_cols}")
        fit_mask = ((df["reporting"] == 1) & (df["unit_category"] == "expected")).to_numpy() if fes or True else None
        st["fit_mask"] = fit_mask
        unseen_any = single_any = False
        for fe in fes:
            params = fz.fixed_effect_params[fe]
            if isinstance(req, dict) and fe in req:
                asked = ["all"] if req[fe] == "all" else list(req[fe])
                if sorted(map(str, asked)) != sorted(map(str, params)):
                    self.V("prepare/selection-differs-from-request", f"effect {fe}: levels {params} used, the request "
                           f"says {asked} (request {req})")
                params = asked
            elif isinstance(req, (list, tuple)) and fe in req:
                params = ["all"]
            raw = df[fe]
            if "all" in params:
                lev = raw.astype(object).where(raw.notna(), None)
            else:
                lev = pd.Series(np.where(raw.isin(params), raw.astype(object), "other"), index=raw.index)
                # (5) pooling: no dummy column for an unselected level
                for c in cols:
                    if c.startswith(fe + "_"):
                        lv = c[len(fe) + 1:]
                        if lv != "other" and lv not in [str(p_) for p_ in params]:
                            self.V("prepare/unselected-level-has-column", f"effect {fe}: column {c} although only "
                                   f"{params} were selected")
            lev = lev.to_numpy()
            levels_fit = sorted({str(v) for v, m in zip(lev, fit_mask) if m and v is not None and v == v})
            levels_all = sorted({str(v) for v in lev if v is not None and v == v})
            active = [c for c in fz.active_fixed_effects if c.startswith(fe + "_")]
            expanded = [c for c in fz.expanded_fixed_effects if c.startswith(fe + "_")]
            want_all = [f"{fe}_{lv}" for lv in levels_all]
            want_fit = [f"{fe}_{lv}" for lv in levels_fit]
            if add_intercept:
                dropped = [c for c in getattr(fz, "intercept_column", []) if c.startswith(fe + "_")]
                if levels_fit:
                    if len(dropped) != 1 or dropped[0] not in want_fit:
                        self.V("prepare/absorbed-level", f"effect {fe}: absorbed {dropped}, levels observed on fitting "
                               f"rows {levels_fit}")
                    if sorted(active) != sorted(c for c in want_fit if c not in dropped):
                        self.V("prepare/fitted-levels", f"effect {fe}: fitted columns {active} but levels on fitting "
                               f"rows {levels_fit} minus absorbed {dropped}")
                    if len(active) != len(levels_fit) - 1:
                        self.V("prepare/fitted-level-count", f"effect {fe}: {len(active)} fitted columns for "
                               f"{len(levels_fit)} observed levels")
                if sorted(expanded) != sorted(c for c in want_all if c not in dropped):
                    self.V("prepare/expanded-levels", f"effect {fe}: expanded {expanded[:6]} vs levels {levels_all[:6]} "
                           f"minus absorbed {dropped}")
            else:
                dropped = []
                if sorted(active) != sorted(want_fit):
                    self.V("prepare/fitted-levels-no-intercept", f"effect {fe}: {list(active)} vs {want_fit}")
            if len(levels_fit) == 1:
                single_any = True
            if set(levels_all) - set(levels_fit):
                unseen_any = True
            # every row's dummies
            for c in expanded:
                lv = c[len(fe) + 1:]
                want = np.array([1 if (v is not None and v == v and str(v) == lv) else 0 for v in lev])
                if not np.array_equal(x[c].to_numpy(), want):
                    self.V("prepare/dummy-values", f"column {c} does not indicate level {lv} row by row")
                    break
            for c in active:
                vals = x[c].to_numpy()[fit_mask]
                if len(set(vals.tolist())) < 2:
                    self.V("prepare/fitted-column-constant", f"fitted column {c} is constant on the fitting rows")
            st.setdefault("levels", {})[fe] = lev
        # (4) centring over all rows passed; (6) per-state copies
        sep = list(getattr(fz, "states_for_separate_model", []) or [])
        rep_states = set(df.loc[df["reporting"] == 1, "postal_code"]) if sep else set()
        for f in fz.features:
            if center and f in x.columns and len(x):
                m = float(x[f].mean())
                sc = float(np.abs(df[f]).max()) if f in df.columns else 1.0
                if abs(m) > 1e-9 * max(1.0, sc):
                    self.V("prepare/not-centred", f"feature {f} has mean {m} over the rows passed")
            for s_ in sep:
                c = f"{f}_{s_}"
                if (s_ in rep_states) != (c in x.columns):
                    self.V("prepare/state-copy-presence", f"state {s_} reporting={s_ in rep_states} but column {c} "
                           f"present={c in x.columns}")
                if c in x.columns:
                    mask = (df["postal_code"] == s_).to_numpy()
                    if np.any(x[c].to_numpy()[~mask] != 0):
                        self.V("prepare/state-copy-leaks", f"column {c} non-zero outside state {s_}")
                    if not center and np.any(x[f].to_numpy()[mask] != 0):
                        self.V("prepare/pooled-feature-not-zeroed", f"pooled feature {f} non-zero on rows of {s_}")
        st["unseen"] = unseen_any
        st["single"] = single_any
        sel = sorted({("all" if "all" in fz.fixed_effect_params[fe] else "some") for fe in fes})
        self.sigs.append([self.source, len(fes), sel, bool(add_intercept), bool(sep), unseen_any, single_any,
                          bool(fz.features)])
        if unseen_any:
            self.count("featurizers_with_unseen_level")
        if single_any:
            self.count("featurizers_with_single_level_effect")

    def check_order(self, cols, where):
        rank = [0 if c == "intercept" else (1 if c.startswith("baseline_normalized_margin") else 2) for c in cols]
        if rank != sorted(rank):
            self.V(f"{where}/column-order", f"columns not ordered intercept, baseline margin, rest: {cols[:8]}")

    def after_filter(self, fz, df, r):
        self.count("filter_calls")
        st = self.inst.get(id(fz))
        if list(r.columns) != list(fz.active_features):
            self.V("filter/columns", f"fit matrix columns {list(r.columns)[:8]} != active_features")
        self.check_order(list(r.columns), "filter")
        if st is not None:
            st["fit_cols"] = list(r.columns)
            # the conformal interval fit uses a prefix of the fitting rows: count degenerate dummies there
            for c in fz.active_fixed_effects:
                if len(r) and len(set(r[c].tolist())) < 2:
                    self.count("degenerate_train_slices")
                    break
            if "hold_cols" in st and st["hold_cols"] != st["fit_cols"]:
                self.V("fit-vs-holdout-columns", f"fit columns {st['fit_cols'][:8]} != holdout columns "
                       f"{st['hold_cols'][:8]}")

    def after_holdout(self, fz, df, r):
        self.count("holdout_calls")
        st = self.inst.get(id(fz))
        cols = list(r.columns)
        if cols != list(fz.active_features):
            self.V("holdout/columns", f"holdout columns {cols[:8]} != active_features")
        self.check_order(cols, "holdout")
        if st is not None:
            st["hold_cols"] = cols
            if "fit_cols" in st and st["fit_cols"] != cols:
                self.V("fit-vs-holdout-columns", f"fit columns {st['fit_cols'][:8]} != holdout columns {cols[:8]}")
        fes = list(fz.fixed_effect_cols)
        fe_cols = set()
        for fe in fes:
            active = [c for c in fz.active_fixed_effects if c.startswith(fe + "_")]
            inactive = [c for c in fz.expanded_fixed_effects if c.startswith(fe + "_") and c not in active]
            fe_cols |= set(active)
            k = len(active)
            a_in = df[active].to_numpy(dtype=float) if active else np.zeros((len(df), 0))
            i_in = df[inactive].to_numpy(dtype=float) if inactive else np.zeros((len(df), 0))
            a_out = r[active].to_numpy(dtype=float) if active else np.zeros((len(df), 0))
            unseen = i_in.sum(axis=1) > 0
            self.count("holdout_rows", len(df))
            self.count("holdout_rows_unseen_level", int(unseen.sum()))
            if k:
                want = np.where(unseen[:, None], 1.0 / (k + 1), a_in)
                if not np.allclose(a_out, want, rtol=0, atol=1e-15):
                    bad = int(np.argmax(np.abs(a_out - want).sum(axis=1) > 1e-15))
                    kind = "unseen-level-share" if unseen[bad] else "seen-level-indicator"
                    self.V(f"holdout/{kind}", f"effect {fe}: holdout row {bad} has {a_out[bad].tolist()[:6]} on the "
                           f"{k} fitted columns, expected {want[bad].tolist()[:6]} (unseen={bool(unseen[bad])})")
        for c in cols:
            if c not in fe_cols and not np.array_equal(r[c].to_numpy(), df[c].to_numpy()):
                self.V("holdout/non-effect-column-changed", f"column {c} changed by generate_holdout_data")


def run_case(spec, inputs=None):
    return run_full(spec, inputs) if spec["part"] == "full" else run_direct(spec)


def run_full(spec, inputs=None):
    if inputs is not None:
        el, feed, call = gen.dematerialise(inputs)
        status = {}
    else:
        i = spec["i"]
        o = dict(estimator=["nonparametric", "gaussian", "bootstrap"][i % 3], feed_frac_reporting=0.5,
                 el_n_units=int([40, 80, 150][i % 3]))
        el, feed, status, call = cases_mod.build(spec["seed"], PROPERTY, i, o)
        rng = gen.rng_for(spec["seed"], PROPERTY, i, salt=8)
        call["fixed_effects"] = gen.random_fixed_effects(rng, el, p_any=0.9)
        if call["pi_method"] == "bootstrap" and rng.random() < 0.4 and el.meta["n_states"] > 1:
            call["model_parameters"]["states_for_separate_model"] = [gen.STATES[0]]
    out = dict(violations=[], counters={}, sets={}, sigs=[])
    mon = Monitor(out, f"full:{call['pi_method']}")
    with harness.patched() as p:
        mon.install(p)
        if call["pi_method"] == "gaussian":
            harness.fast_boot_sigma(p, 50)
        res, exc = harness.run_estimates(el, feed, call)
    cm = harness.client_mod()
    if exc is not None:
        if isinstance(exc, cm.ModelNotEnoughSubunitsException):
            out["counters"]["not_enough_units"] = 1
        else:
            out["counters"]["run_raised"] = 1
            out["sets"]["raised"] = [harness.exc_info(exc)["type"] + ":" + harness.exc_info(exc)["where"][-70:]]
    else:
        out["counters"]["full_runs"] = 1
    out["sigs"] = [s for s in mon.sigs if s[5] or s[1] >= 2]
    out["nontrivial"] = bool(out["sigs"])
    if out["violations"]:
        out["inputs"] = gen.materialise(el, feed, call)
    if spec["i"] % 67 == 0:
        out["sample"] = gen.jsonable(dict(part="full", election=el.meta, call=call, featurizer_instances=mon.sigs[:6],
                                          counters=out["counters"]))
    return out


def random_frame(rng):
    n = int(rng.integers(6, 60))
    n_fe = int(rng.integers(0, 4))
    fes = ["postal_code", "county_classification", "district"][:n_fe] if rng.random() < 0.5 else \
        [["county_classification"], ["postal_code", "district"], ["district"], []][int(rng.integers(0, 4))]
    pools = {"postal_code": ["AA", "BB", "CC"], "county_classification": ["urban", "rural", "suburban", "exurb"],
             "district": ["1", "2", "10", "11", "3"]}
    if rng.random() < 0.4:
        # the same label occurs as a level of two different effects (district "1" / class "1", state "AA" / class "AA"):
        # a selection made for one effect says nothing about the other
        pools = {"postal_code": ["AA", "BB", "1"], "county_classification": ["urban", "rural", "AA", "1"],
                 "district": ["1", "2", "10", "AA", "urban"]}
    df = pd.DataFrame(dict(x1=rng.normal(2, 1, size=n), x2=rng.uniform(-1, 5, size=n),
                           baseline_normalized_margin=rng.uniform(-1, 1, size=n)))
    roles = rng.choice(["fit", "hold", "unexp", "nonmod"], size=n, p=[0.45, 0.35, 0.1, 0.1])
    if (roles == "fit").sum() == 0:
        roles[0] = "fit"
    df["reporting"] = np.where(roles == "fit", 1, 0).astype("int64")
    df.loc[roles == "nonmod", "reporting"] = 0
    df["unit_category"] = np.where(roles == "unexp", "unexpected",
                                   np.where(roles == "nonmod", "non-modeled: zero baseline", "expected"))
    for c, pool in pools.items():
        k = int(rng.integers(1, len(pool) + 1))
        levels = [pool[i] for i in rng.permutation(len(pool))[:k]]
        vals = np.array([levels[int(rng.integers(0, k))] for _ in range(n)], dtype=object)
        mode = rng.random()
        if mode < 0.3 and k > 1:   # one level only outside the fitting rows
            vals[(roles == "fit") & (vals == levels[0])] = levels[1]
        elif mode < 0.45 and k > 1:  # one level only in fitting rows
            vals[(roles != "fit") & (vals == levels[0])] = levels[1]
        elif mode < 0.55:            # a single level on the fitting rows
            vals[roles == "fit"] = levels[0]
        df[c] = vals
        if c != "postal_code" and rng.random() < 0.3:
            df.loc[roles == "unexp", c] = np.nan
    if "postal_code" not in df.columns:
        df["postal_code"] = "AA"
    feats = [["x1"], ["x1", "x2"], [], ["baseline_normalized_margin", "x1"]][int(rng.integers(0, 4))]
    if rng.random() < 0.5 or not fes:
        fe_arg = list(fes)
    else:
        fe_arg = {}
        for fe in fes:
            if rng.random() < 0.5:
                fe_arg[fe] = "all"
            else:
                lv = [v for v in pools[fe] if rng.random() < 0.5] or [pools[fe][0]]
                if rng.random() < 0.3:
                    lv.append("ABSENT")
                fe_arg[fe] = lv
    sep = []
    if rng.random() < 0.3 and feats:
        sep = [s for s in ["AA", "BB", "ZZ"] if rng.random() < 0.5]
    add_intercept = True if fes else bool(rng.random() < 0.7)
    return df, feats, fe_arg, sep, add_intercept, roles


def run_direct(spec):
    harness.client_mod()
    from elexmodel.handlers.data.Featurizer import Featurizer

    out = dict(violations=[], counters={}, sets={}, sigs=[])
    rng = gen.rng_for(spec["seed"], PROPERTY, spec["i"], salt=1)
    mon = Monitor(out, "direct")
    with harness.patched() as p:
        mon.install(p)
        for t in range(DIRECT_PER_SPEC):
            df, feats, fe_arg, sep, add_intercept, roles = random_frame(rng)
            # order like the models do: fitting rows first, then holdout, then units outside the model
            order = np.argsort(np.array([dict(fit=0, hold=1, unexp=2, nonmod=2)[r] for r in roles]), kind="stable")
            df = df.iloc[order].reset_index(drop=True)
            roles = roles[order]
            n_fit, n_hold = int((roles == "fit").sum()), int((roles == "hold").sum())
            lab = int(rng.integers(0, 3))
            if lab == 1:
                # row labels as the models produce them: three frames, each labelled 0..n-1, concatenated
                df.index = list(range(n_fit)) + list(range(n_hold)) + list(range(len(df) - n_fit - n_hold))
            elif lab == 2:
                df.index = [int(x) for x in rng.permutation(len(df))]
            hold_stop = n_fit + n_hold if rng.random() < 0.5 else len(df)  # also predict for units outside the model
            fz = Featurizer(feats, fe_arg, states_for_separate_model=sep)
            before = len(out["violations"])
            try:
                x = fz.prepare_data(df, center_features=bool(rng.random() < 0.6), scale_features=False,
                                    add_intercept=add_intercept)
                fz.filter_to_active_features(x[:n_fit])
                fz.generate_holdout_data(x[n_fit:hold_stop])
                out["counters"]["direct_frames"] = out["counters"].get("direct_frames", 0) + 1
            except Exception as e:  # noqa: BLE001
                import traceback

                tb = traceback.format_exc()
                out["violations"].append(dict(key=f"C16/direct/raised/{type(e).__name__}", msg=f"{type(e).__name__}: "
                                              f"{str(e)[:200]} (features={feats}, fixed_effects={fe_arg}, sep={sep}, "
                                              f"intercept={add_intercept})", witness=dict(tb=tb[-800:])))
            if len(out["violations"]) > before and "frame" not in out:
                out["frame"] = True
                out["violations"][-1]["witness"]["frame"] = gen.jsonable(df.head(30))
                out["violations"][-1]["witness"]["args"] = gen.jsonable(dict(features=feats, fixed_effects=fe_arg,
                                                                            sep=sep, add_intercept=add_intercept))
    out.pop("frame", None)
    out["sigs"] = [s for s in mon.sigs if s[5] and s[1] >= 2]
    out["nontrivial"] = bool(out["sigs"])
    if spec["i"] % 50 == 0:
        out["sample"] = gen.jsonable(dict(part="direct", last_frame=df.head(8), features=feats, fixed_effects=fe_arg,
                                          separate_states=sep, add_intercept=add_intercept))
    return out


def finalize(agg):
    c = agg["counters"]
    for k in ("prepare_data_calls", "filter_calls", "holdout_calls", "holdout_rows_unseen_level", "full_runs",
              "direct_frames", "featurizers_with_single_level_effect"):
        if not c.get(k):
            return f"{k} = 0", {}
    return None, {}
