"""C13 - what is reported for one request does not depend on what else was requested."""
import copy

from .. import cases as cases_mod
from .. import gen, harness
from .. import reference as ref

PROPERTY = "C13"
LEVEL = "exploration"
RULE = ("two-run monitor: for a generated election with a complete feed a base request (1-3 estimands, 2-3 interval "
        "levels, 2-4 aggregates) is run, then sub-requests: one level only, reversed levels, one aggregate only, "
        "shuffled aggregates, one estimand only, reversed estimands. Every (table, row key, column) present in both "
        "results must be bit-identical, every table must keep the same key / category column names "
        "(postal_code, district, county_*, geographic_unit_fips, reporting, unit_category) whatever was requested and no "
        "merge-suffixed (_x/_y) column may exist. All three estimators, statewide and district offices. Non-trivial: "
        "a sub-request whose result shares >=1 interval column with the base; distinct = (estimator, office kind, "
        "sub-request kind, #estimands, #levels)")
ASSUMPTIONS = ["complete feeds: no baseline unit is missing from the feed (the property's quantifier)",
               "gaussian runs use the real boot_sigma with 300 resamples (seeded by the model's seed setting)"]
BATCH = {"quick": 4, "thorough": 12}
BUDGET = {"quick": 150, "thorough": 1500}
MIN_NONTRIVIAL = {"quick": 15, "thorough": 40}
N = {"quick": 72, "thorough": 2400}
KEYCOLS = ["postal_code", "district", "county_fips", "county_classification", "geographic_unit_fips", "reporting",
           "unit_category"]


def cases(tier, seed):
    return [dict(seed=seed, i=i) for i in range(N[tier])]


def build(spec):
    i = spec["i"]
    rng = gen.rng_for(spec["seed"], PROPERTY, i, salt=1)
    est = ["nonparametric", "gaussian", "bootstrap"][i % 3]
    o = dict(estimator=est, feed_n_missing=0, feed_frac_reporting=0.6, B=10, el_n_units=int(rng.integers(50, 130)),
             n_estimands=int(gen.choice(rng, [2, 3, 2])), district=bool(i % 4 == 3))
    if i % 6 == 4 and est != "bootstrap":
        # grouping columns delivered as integers, several estimands: the key columns of a table do not depend on how
        # many estimands are merged into it
        o.update(int_key=True, district=True, feed_n_unexpected=0, n_estimands=3, allow_pointer_config=False)
    if i % 5 == 1 and est != "bootstrap":
        o.update(pointer_config=True, n_estimands=3)  # primary-style config: several candidates share one baseline
    el, feed, status, call = cases_mod.build(spec["seed"], PROPERTY, i, o)
    avail = [a for a in el.aggregates_available()]
    k = int(rng.integers(2, len(avail) + 1))
    aggs = [avail[j] for j in rng.permutation(len(avail))[:k]]
    if "unit" not in aggs:
        aggs.append("unit")
    if est == "bootstrap" and "postal_code" not in aggs:
        aggs.append("postal_code")
    call["aggregates"] = aggs
    al = sorted(set(gen.random_alphas(rng, k=3)))
    if len(al) < 2:
        al = [0.7, 0.9]
    if i % 4 == 1:
        # levels that agree to two or three decimals (0.99 and 0.995 are both in use on election night): each must
        # still be reported as if it had been requested alone
        al = [[0.99, 0.995], [0.9, 0.901], [0.696, 0.7, 0.704], [0.95, 0.9501], [0.5, 0.5004, 0.99]][(i // 4) % 5]
        el.meta["close_levels"] = True
    call["prediction_intervals"] = [al[j] for j in rng.permutation(len(al))]
    return el, feed, status, call, rng


def subrequests(call, rng):
    subs = []
    al, ag, es = call["prediction_intervals"], call["aggregates"], call["estimands"]
    c = copy.deepcopy(call)
    c["prediction_intervals"] = [al[int(rng.integers(0, len(al)))]]
    subs.append(("one-level", c))
    if len(al) >= 2 and min(abs(a - b) for a in al for b in al if a != b) < 0.0051:
        for a in al:  # close levels: every level alone
            if [a] != c["prediction_intervals"]:
                c2 = copy.deepcopy(call)
                c2["prediction_intervals"] = [a]
                subs.append(("one-level", c2))
    c = copy.deepcopy(call)
    c["prediction_intervals"] = list(reversed(al))
    subs.append(("reversed-levels", c))
    non_unit = [a for a in ag if a != "unit"]
    c = copy.deepcopy(call)
    one = non_unit[int(rng.integers(0, len(non_unit)))] if non_unit else "unit"
    c["aggregates"] = [one] + (["unit"] if rng.random() < 0.5 and one != "unit" else [])
    if call["pi_method"] == "bootstrap" and "postal_code" not in c["aggregates"] and rng.random() < 0.5:
        c["aggregates"].append("postal_code")
    subs.append(("one-aggregate", c))
    c = copy.deepcopy(call)
    c["aggregates"] = [ag[j] for j in rng.permutation(len(ag))]
    subs.append(("shuffled-aggregates", c))
    if len(es) > 1:
        pick = int(rng.integers(0, len(es)))
        for j in ([pick] if len(set(es)) == len(es) and not any(e.startswith("cand_") for e in es) else range(len(es))):
            c = copy.deepcopy(call)
            c["estimands"] = [es[j]]
            subs.append(("one-estimand", c))
        c = copy.deepcopy(call)
        c["estimands"] = list(reversed(es))
        subs.append(("reversed-estimands", c))
    return subs


def compare(base, sub, kind, est, V):
    shared_iv = 0
    for name, tb in base.items():
        ts = sub.get(name)
        if ts is None:
            continue
        kb = [c for c in tb.columns if c in KEYCOLS]
        ks = [c for c in ts.columns if c in KEYCOLS]
        if kb != ks:
            V(f"C13/{est}/key-columns-differ/{kind}", f"{name}: key/category columns {kb} (base) vs {ks} ({kind})")
            continue
        keys = [c for c in kb if c not in ("reporting", "unit_category")]
        rb = {tuple(r[c] for c in keys): r for r in ref.rows(tb)}
        rs = {tuple(r[c] for c in keys): r for r in ref.rows(ts)}
        if set(rb) != set(rs) or len(rb) != len(tb) or len(rs) != len(ts):
            V(f"C13/{est}/rows-differ/{kind}", f"{name}: row keys differ or are duplicated (base {len(tb)} rows, "
              f"{kind} {len(ts)} rows)")
            continue
        common = [c for c in tb.columns if c in ts.columns]
        shared_iv += sum(1 for c in common if c.startswith(("lower_", "upper_")))
        for k, a in rb.items():
            b = rs[k]
            bad = [c for c in common if not _eq(a[c], b[c])]
            if bad:
                V(f"C13/{est}/value-depends-on-request/{kind}", f"{name}{k}: {bad[:4]} = {[a[c] for c in bad[:3]]} in the "
                  f"base request but {[b[c] for c in bad[:3]]} with {kind}", table=name, row=k, columns=bad[:6])
                break
    return shared_iv


def _eq(a, b):
    if isinstance(a, float) and isinstance(b, float) and a != a and b != b:
        return True
    return a == b


def check_columns(res, est, kind, estimands, V):
    for name, t in res.items():
        bad = [c for c in t.columns if c.endswith("_x") or c.endswith("_y")]
        if bad:
            V(f"C13/{est}/merge-suffixed-columns", f"{name} ({kind}, {len(estimands)} estimands): columns {bad}")
        want = ["postal_code", "geographic_unit_fips", "reporting", "unit_category"] if name == "unit_data" else None
        if want is not None:
            got = [c for c in t.columns if c in KEYCOLS]
            if sorted(got) != sorted(want):
                V(f"C13/{est}/unit-table-key-columns", f"unit_data ({kind}, {len(estimands)} estimands): key/category "
                  f"columns {got}")


def run_case(spec, inputs=None):
    el, feed, status, call, rng = build(spec)
    est = call["pi_method"]
    out = dict(violations=[], counters={}, sets={}, sigs=[])

    def V(key, msg, **w):
        if len(out["violations"]) < 10:
            out["violations"].append(dict(key=key, msg=msg, witness=w))

    def run(c):
        with harness.patched() as p:
            if est == "gaussian":
                harness.fast_boot_sigma(p)
            return harness.run_estimates(el, feed, c)

    cm = harness.client_mod()
    base, exc = run(call)
    if exc is not None:
        if isinstance(exc, cm.ModelNotEnoughSubunitsException):
            out["counters"]["not_enough_units"] = 1
        else:
            out["counters"]["base_run_raised"] = 1
            out["sets"]["raised"] = [est + ":" + harness.exc_info(exc)["type"] + ":" + harness.exc_info(exc)["where"][-70:]]
        return out
    out["counters"]["base_requests"] = 1
    out["counters"][f"base_{est}"] = 1
    check_columns(base, est, "base", call["estimands"], V)
    for kind, c in subrequests(call, rng):
        sub, exc = run(c)
        out["counters"]["sub_requests"] = out["counters"].get("sub_requests", 0) + 1
        if exc is not None:
            info = harness.exc_info(exc)
            V(f"C13/{est}/sub-request-fails/{kind}/{info['type']}", f"{kind} ({c['estimands']}, {c['aggregates']}, "
              f"{c['prediction_intervals']}): {info['type']}: {info['msg']}")
            continue
        check_columns(sub, est, kind, c["estimands"], V)
        shared = compare(base, sub, kind, est, V)
        if shared:
            out["sigs"].append([est, bool(el.district), kind, len(call["estimands"]), len(call["prediction_intervals"])])
    out["nontrivial"] = bool(out["sigs"])
    if out["violations"]:
        out["inputs"] = gen.materialise(el, feed, call)
    if spec["i"] % 17 == 0:
        out["sample"] = gen.jsonable(dict(election=el.meta, base_request=dict(estimands=call["estimands"],
                                          levels=call["prediction_intervals"], aggregates=call["aggregates"],
                                          estimator=est), sub_requests=[s[2] for s in out["sigs"]],
                                          tables={k: list(v.columns)[:8] for k, v in base.items()}))
    return out


def finalize(agg):
    c = agg["counters"]
    for est in ("nonparametric", "gaussian", "bootstrap"):
        if c.get(f"base_{est}", 0) < 3:
            return f"only {c.get(f'base_{est}', 0)} base requests for {est}", {}
    return None, {}
