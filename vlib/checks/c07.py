"""C07 - race calls and call-stops are always honoured; contradictory calls are rejected."""
import copy

import numpy as np

from .. import cases as cases_mod
from .. import gen, harness
from .. import reference as ref

PROPERTY = "C07"
LEVEL = "exploration"
RULE = ("(full) real bootstrap get_estimates runs with random disjoint called-left / called-right / stop lists (handed "
        "over as list, tuple, set, frozenset or dict; incl. a contest without a single vote that is called) over "
        "the contests (statewide and district offices, 1-3 levels), compared per contest with the decision table and, "
        "for untouched contests, bit for bit with the same run without lists; overlapping lists and names of contests "
        "that are not modelled must raise BootstrapElectionModelException. (injected) after one real bootstrap the "
        "model's stored unit predictions and draw matrices are overwritten so that every contest gets a chosen "
        "(lower, prediction, upper) incl. exact zeros, and the REAL get_aggregate_predictions / "
        "get_aggregate_prediction_intervals are called with call lists: all feasible decision-table rows "
        "sign(lower) x sign(pred) x sign(upper) x {left, right, none} x {stopped, not} are driven. Non-trivial: a "
        "contest on which an override was actually applied; distinct = decision-table row (source, signs, call, stop)")
ASSUMPTIONS = ["state injection writes the same attributes compute_bootstrap_errors writes (errors_B_1..4, "
               "weighted_yz_test_pred, weighted_z_test_pred) and the pred_margin column of the nonreporting frame",
               "unknown names are tested on the called lists only (the statement speaks of calling a contest)"]
BATCH = {"quick": 6, "thorough": 20}
BUDGET = {"quick": 120, "thorough": 1500}
MIN_NONTRIVIAL = {"quick": 20, "thorough": 40}
N_FULL = {"quick": 150, "thorough": 3000}
N_INJ = {"quick": 60, "thorough": 1200}
INJ_ROUNDS = 40


def cases(tier, seed):
    out = [dict(part="full", seed=seed, i=i) for i in range(N_FULL[tier])]
    out += [dict(part="inject", seed=seed, i=800000 + i) for i in range(N_INJ[tier])]
    return out


def sgn(x):
    return "0" if x == 0 else ("+" if x > 0 else "-")


def top_tables(res, el):
    if not el.district:
        return {"state_data": res["state_data"]} if "state_data" in res else {}
    return {k: res[k] for k in ("state_data", "district_data") if k in res}


def names_of(tdf, el):
    return [r["postal_code"] if not el.district else f"{r['postal_code']}_{r['district']}" for r in ref.rows(tdf)]


def judge_rows(rows, base_rows, names, lhs, rhs, stop, alphas, V, rows_seen, source, pre=None):
    """rows/base_rows: list of dict (pred, {alpha: (lo, hi)}) with / without lists."""
    applied = 0
    for nm, r, b in zip(names, rows, base_rows):
        call = "left" if nm in lhs else ("right" if nm in rhs else "none")
        st = nm in stop
        for a in alphas:
            lo, hi = r["iv"][a]
            blo, bhi = b["iv"][a]
            rows_seen.append([source, sgn(blo), sgn(b["pred"]), sgn(bhi), call, st])
            where = f"contest {nm} alpha={a} call={call} stopped={st}: before [{blo},{b['pred']},{bhi}] after [{lo},{r['pred']},{hi}]"
            if call == "left":
                if not r["pred"] >= 0.005:
                    V(f"C07/{source}/called-left-prediction", where)
                if not st and not lo >= 0:
                    V(f"C07/{source}/called-left-lower-negative", where)
            elif call == "right":
                if not r["pred"] <= -0.005:
                    V(f"C07/{source}/called-right-prediction", where)
                if not st and not hi <= 0:
                    V(f"C07/{source}/called-right-upper-positive", where)
            if st and call == "none":
                if not (lo <= 0 <= hi):
                    V(f"C07/{source}/stopped-interval-excludes-zero", where)
            if call == "none" and not st:
                if not (lo == blo and hi == bhi and r["pred"] == b["pred"]):
                    V(f"C07/{source}/untouched-contest-changed", where)
            elif (lo, hi, r["pred"]) != (blo, bhi, b["pred"]):
                applied += 1
    return applied


def run_case(spec, inputs=None):
    return run_full(spec) if spec["part"] == "full" else run_inject(spec)


def build(spec, small=False):
    i = spec["i"]
    rng = gen.rng_for(spec["seed"], PROPERTY, i, salt=3)
    district = bool(i % 3 == 1)
    o = dict(estimator="bootstrap", district=district,
             el_n_states=int(rng.integers(2, 5)) if not district else int(rng.integers(1, 3)),
             el_n_units=int(rng.integers(60, 160)) if not district else int(rng.integers(120, 240)),
             feed_frac_reporting=float(rng.uniform(0.3, 0.7)), feed_n_unexpected=int(gen.choice(rng, [0, 1])),
             feed_n_missing=0, B=int(gen.choice(rng, [5, 10, 30])), lambda_=float(gen.choice(rng, [0.1, 1.0])),
             fixed_effects={}, alphas=sorted(set(gen.random_alphas(rng))), el_noise_scale=0.05,
             aggregates=(["postal_code", "unit"] if not district else
                         gen.choice(rng, [["postal_code", "district", "unit"], ["district"], ["postal_code", "county_fips"]])))
    if not district and i % 6 == 0:
        # office is a free config field: a statewide office the library has no default aggregates for
        o["el_office"] = gen.choice(rng, ["A", "L", "G_precinct"])
    el, feed, status, call = cases_mod.build(spec["seed"], PROPERTY, i, o)
    return el, feed, status, call, rng


def table_rows(tdf, alphas):
    return [dict(pred=r["pred_margin"], iv={a: (r[f"lower_{a}_margin"], r[f"upper_{a}_margin"]) for a in alphas})
            for r in ref.rows(tdf)]


def run_full(spec):
    harness.client_mod()
    from elexmodel.models.BootstrapElectionModel import BootstrapElectionModelException

    el, feed, status, call, rng = build(spec)
    out = dict(violations=[], counters={}, sets={}, sigs=[])

    def V(key, msg, **w):
        if len(out["violations"]) < 15:
            out["violations"].append(dict(key=key, msg=msg, witness=w))

    cm = harness.client_mod()
    # a contest without a single vote: a blocklisted state that has not reported anything yet (its predicted turnout
    # is zero, so its margin is 0/0 before any call is applied)
    empty_state = None
    if not el.district and el.meta["n_states"] >= 2 and spec["i"] % 4 == 2:
        empty_state = str(el.pre.postal_code.iloc[-1])
        m_ = feed.postal_code == empty_state
        feed.loc[m_, ["results_turnout", "results_dem", "results_gop"]] = 0
        feed.loc[m_, "percent_expected_vote"] = 0.0
        call["model_parameters"]["postal_code_blocklist"] = [empty_state]
        out["counters"]["runs_with_zero_turnout_contest"] = 1
    res0, exc = harness.run_estimates(el, feed, call)
    if exc is not None:
        if isinstance(exc, cm.ModelNotEnoughSubunitsException):
            out["counters"]["not_enough_units"] = 1
        else:
            out["counters"]["run_raised"] = 1
            out["sets"]["raised"] = [harness.exc_info(exc)["type"] + ":" + harness.exc_info(exc)["where"][-70:]]
        return out
    tabs0 = top_tables(res0, el)
    if not tabs0:
        out["inconclusive"] = "no top-level table"
        return out
    names = names_of(next(iter(tabs0.values())), el)
    n = len(names)
    alphas = call["prediction_intervals"]
    perm = [names[j] for j in rng.permutation(n)]
    k_l, k_r = int(rng.integers(0, n // 2 + 1)), int(rng.integers(0, n // 2 + 1))
    lhs, rhs = perm[:k_l], perm[k_l:k_l + k_r]
    stop = [names[j] for j in rng.permutation(n)[: int(rng.integers(0, n // 2 + 1))]]
    if empty_state is not None and empty_state in names:  # the empty contest is always called
        lhs = [x for x in lhs if x != empty_state]
        rhs = [x for x in rhs if x != empty_state]
        (lhs if spec["i"] % 8 == 2 else rhs).append(empty_state)
    c2 = copy.deepcopy(call)
    # the lists may be handed over in any container (list, tuple, set, frozenset, dict keys)
    kind_ = int(rng.integers(0, 5))
    wrap = [list, tuple, set, frozenset, dict.fromkeys][kind_]
    out["sets"]["list_containers"] = [["list", "tuple", "set", "frozenset", "dict"][kind_]]
    def rep_(lst):
        # calls collected from two desks: the same contest may be listed twice in one list (list / tuple only)
        if kind_ <= 1 and lst and rng.random() < 0.4:
            out["counters"]["lists_with_repeated_entry"] = 1
            return list(lst) + [lst[int(rng.integers(0, len(lst)))]]
        return lst

    c2.update(lhs_called_contests=wrap(rep_(lhs)), rhs_called_contests=wrap(rep_(rhs)), stop_model_call=wrap(rep_(stop)))
    res1, exc = harness.run_estimates(el, feed, c2)
    out["counters"]["full_runs"] = 1
    if exc is not None:
        info = harness.exc_info(exc)
        V(f"C07/full/valid-lists-raised/{info['type']}", f"lists lhs={lhs} rhs={rhs} stop={stop}: {info['type']}: "
          f"{info['msg']}", exc=info)
    else:
        rows_seen = []
        applied = 0
        for tname, t0 in tabs0.items():
            t1 = res1[tname]
            if names_of(t1, el) != names_of(t0, el):
                V("C07/full/contest-rows-changed", f"{tname}: contest rows differ between runs")
                continue
            applied += judge_rows(table_rows(t1, alphas), table_rows(t0, alphas), names_of(t0, el), lhs, rhs, stop,
                                  alphas, V, rows_seen, "full")
        out["counters"]["contest_levels_judged"] = len(rows_seen)
        out["counters"]["overrides_applied"] = applied
        out["sigs"] = [list(x) for x in {tuple(r) for r in rows_seen if r[4] != "none" or r[5]}]
        out["sets"]["decision_rows_full"] = out["sigs"]
    # invalid lists -------------------------------------------------------------------------------------------
    bad_cases = []
    if n >= 1:
        both = names[int(rng.integers(0, n))]
        bad_cases.append(("both-parties", dict(lhs_called_contests=[both] + lhs, rhs_called_contests=[both],
                                               stop_model_call=[])))
        bad_cases.append(("unknown-left", dict(lhs_called_contests=["QQ_99"], rhs_called_contests=[], stop_model_call=[])))
        bad_cases.append(("unknown-right", dict(lhs_called_contests=[], rhs_called_contests=[names[0] + "x"],
                                                stop_model_call=[])))
        # a state the config names for this office but that has no unit in the run (its baseline rows are not in the
        # file yet): it is not being modelled, naming it must be rejected like any unknown contest
        ghost = "XX" if not el.district else "XX_1"
        bad_cases.append(("configured-state-without-units-" + ["left", "right", "stop", "both"][(spec["i"] // 4) % 4],
                          [dict(lhs_called_contests=[ghost], rhs_called_contests=[], stop_model_call=[]),
                           dict(lhs_called_contests=[], rhs_called_contests=[ghost], stop_model_call=[]),
                           dict(lhs_called_contests=[ghost], rhs_called_contests=[], stop_model_call=[ghost]),
                           dict(lhs_called_contests=[ghost], rhs_called_contests=[ghost], stop_model_call=[])][
                              (spec["i"] // 4) % 4]))
    kind, upd = bad_cases[spec["i"] % len(bad_cases)]
    c3 = copy.deepcopy(call)
    c3.update(upd)
    el3 = el
    if kind.startswith("configured-state-without-units"):
        el3 = copy.deepcopy(el)
        cfg0 = el3.config[el3.election_id][0]
        cfg0["states"] = list(cfg0["states"]) + ["XX"]
    res3, exc3 = harness.run_estimates(el3, feed, c3)
    out["counters"]["invalid_list_runs"] = 1
    if not isinstance(exc3, BootstrapElectionModelException):
        got = "estimates" if exc3 is None else type(exc3).__name__
        V(f"C07/full/invalid-lists-not-rejected/{kind}", f"{kind} ({upd}): expected BootstrapElectionModelException, "
          f"got {got}")
    # one client for the whole night ----------------------------------------------------------------------------
    # the desk polls with the SAME client object and the same feed; only the lists change between polls: no calls,
    # calls made, a contradictory call (must be rejected), calls retracted.  Every poll must answer like a fresh client.
    if spec["i"] % 2 == 1 and res1 is not None:
        night = cm.ModelClient()
        d0, d1 = harness.results_digest(res0), harness.results_digest(res1)
        seq = [("no-calls", call, d0), ("calls-made", c2, d1), ("contradictory", c3, None), ("calls-made-again", c2, d1),
               ("calls-retracted", call, d0)]
        for label, cc, want in seq:
            r_, e_ = harness.run_estimates(el3 if cc is c3 else el, feed, cc, client=night)
            out["counters"]["same_client_polls"] = out["counters"].get("same_client_polls", 0) + 1
            if want is None:
                if not isinstance(e_, BootstrapElectionModelException):
                    V(f"C07/same-client/invalid-lists-not-rejected/{kind}", f"poll '{label}' on a client that has "
                      f"answered before: expected BootstrapElectionModelException, got "
                      f"{'estimates' if e_ is None else type(e_).__name__}")
            elif e_ is not None:
                V(f"C07/same-client/{label}/raised/{type(e_).__name__}", f"poll '{label}' raised {type(e_).__name__}: "
                  f"{str(e_)[:200]}")
            elif harness.results_digest(r_) != want:
                V(f"C07/same-client/{label}/differs-from-fresh-client", f"poll '{label}' on the client of the night "
                  f"does not return what a fresh client returns for lhs={cc.get('lhs_called_contests')} "
                  f"rhs={cc.get('rhs_called_contests')} stop={cc.get('stop_model_call')}")
    out["nontrivial"] = bool(out["sigs"])
    if out["violations"]:
        out["inputs"] = gen.materialise(el, feed, c2)
    if spec["i"] % 37 == 0:
        out["sample"] = gen.jsonable(dict(part="full", election=el.meta, contests=names, lhs=lhs, rhs=rhs, stop=stop,
                                          alphas=alphas, rows=out["sigs"][:6]))
    return out


TARGETS = [(-0.3, -0.2, -0.1), (-0.2, -0.05, 0.1), (-0.1, 0.05, 0.2), (0.1, 0.2, 0.3), (-0.1, 0.0, 0.1),
           (0.0, 0.1, 0.2), (-0.2, -0.1, 0.0), (-0.004, -0.002, 0.1), (-0.1, 0.002, 0.004), (0.001, 0.002, 0.003),
           (-0.003, -0.002, -0.001)]


def run_inject(spec):
    harness.client_mod()
    el, feed, status, call, rng = build(spec)
    out = dict(violations=[], counters={}, sets={}, sigs=[])

    def V(key, msg, **w):
        if len(out["violations"]) < 15:
            out["violations"].append(dict(key=key, msg=msg, witness=w))

    cm = harness.client_mod()
    res0, exc, client = harness.run_estimates(el, feed, call, want_client=True)
    if exc is not None:
        out["counters"]["not_run"] = 1
        return out
    model, rh = client.model, client.results_handler
    rep, non, une = rh.reporting_units.copy(), rh.nonreporting_units.copy(), rh.unexpected_units.copy()
    agg = ["postal_code"] if not el.district else ["postal_code", "district"]
    B = model.B
    alphas = call["prediction_intervals"]
    # contests and their first nonreporting unit
    def name_of(r):
        return r["postal_code"] if not el.district else f"{r['postal_code']}_{r['district']}"

    non_rows = ref.rows(non)
    first = {}
    for j, r in enumerate(non_rows):
        first.setdefault(name_of(r), j)
    wz = np.asarray(model.weighted_z_test_pred, dtype=float).reshape(-1, 1).copy()
    rows_seen = []
    applied = 0
    for rd in range(INJ_ROUNDS):
        # baseline (no lists) with neutral state to learn contests and known totals
        model.weighted_z_test_pred = wz.copy()
        model.errors_B_3 = np.tile(wz, (1, B))
        model.errors_B_4 = np.tile(wz, (1, B))
        zero = np.zeros_like(wz)
        non["pred_margin"] = zero.reshape(-1)
        model.weighted_yz_test_pred = zero.copy()
        model.errors_B_1 = np.zeros((len(wz), B))
        model.errors_B_2 = np.zeros((len(wz), B))
        base = model.get_aggregate_predictions(rep, non, une, agg, "margin")
        names = [name_of(r) for r in ref.rows(base)]
        known = dict(zip(names, (base["pred_margin"] * base["pred_turnout"]).to_numpy()))
        ztot = dict(zip(names, base["pred_turnout"].to_numpy()))
        usable = [nm for nm in names if nm in first and ztot[nm] > 0]
        if not usable:
            out["counters"]["inject_no_usable_contest"] = 1
            return out
        crafted = np.zeros(len(wz))
        E = np.zeros((len(wz), B))
        targets = {}
        for nm in usable:
            L, p, U = TARGETS[int(rng.integers(0, len(TARGETS)))]
            if rng.random() < 0.4:
                s = float(rng.uniform(0.2, 3.0))
                L, p, U = L * s, p * s, U * s
            targets[nm] = (L, p, U)
            j = first[nm]
            crafted[j] = p * ztot[nm] - known[nm]
            # error_diff_b in [p-U, p-L] so that pred - quantiles lands in [L, U]; constant turnout across draws
            e = np.linspace(p - U, p - L, B) if B > 1 else np.array([0.0])
            E[j] = rng.permutation(e) * ztot[nm]
        non["pred_margin"] = crafted
        model.weighted_yz_test_pred = crafted.reshape(-1, 1)
        model.errors_B_2 = np.tile(crafted.reshape(-1, 1), (1, B))
        model.errors_B_1 = model.errors_B_2 + E
        perm = [usable[j] for j in rng.permutation(len(usable))]
        k_l, k_r = int(rng.integers(0, len(usable) // 2 + 2)), int(rng.integers(0, len(usable) // 2 + 2))
        lhs, rhs = perm[:k_l], perm[k_l:k_l + k_r]
        stop = [usable[j] for j in rng.permutation(len(usable))[: int(rng.integers(0, len(usable) // 2 + 2))]]

        def compute(l_, r_, s_):
            pr = model.get_aggregate_predictions(rep, non, une, agg, "margin", lhs_called_contests=l_,
                                                 rhs_called_contests=r_)
            ivs = {}
            for a in alphas:
                iv = model.get_aggregate_prediction_intervals(rep, non, une, agg, a, None, "margin",
                                                              lhs_called_contests=l_, rhs_called_contests=r_,
                                                              stop_model_call=s_)
                ivs[a] = (np.asarray(iv.lower, dtype=float).reshape(-1), np.asarray(iv.upper, dtype=float).reshape(-1))
            nms = [name_of(r) for r in ref.rows(pr)]
            rows = [dict(pred=float(pr["pred_margin"].iloc[k]), iv={a: (float(ivs[a][0][k]), float(ivs[a][1][k]))
                                                                     for a in alphas}) for k in range(len(nms))]
            return nms, rows

        try:
            nms0, rows0 = compute([], [], [])
            nms1, rows1 = compute(lhs, rhs, stop)
        except Exception as e:  # noqa: BLE001
            V(f"C07/injected/raised/{type(e).__name__}", f"aggregate methods raised {type(e).__name__}: {str(e)[:200]} "
              f"(lhs={lhs} rhs={rhs} stop={stop})")
            break
        out["counters"]["injected_rounds"] = out["counters"].get("injected_rounds", 0) + 1
        # the injection must have produced the intended pre-override state (else the harness is wrong)
        for nm, r in zip(nms0, rows0):
            if nm in targets:
                L, p, U = targets[nm]
                if abs(r["pred"] - p) > 1e-9:
                    out["inconclusive"] = f"injection did not reach target prediction ({r['pred']} vs {p})"
        applied += judge_rows(rows1, rows0, nms1, lhs, rhs, stop, alphas, V, rows_seen, "injected")
    out["counters"]["contest_levels_judged"] = len(rows_seen)
    out["counters"]["overrides_applied"] = applied
    rows = [list(x) for x in {tuple(r) for r in rows_seen}]
    out["sigs"] = [r for r in rows if r[4] != "none" or r[5]]
    out["sets"]["decision_rows_injected"] = rows
    out["nontrivial"] = bool(out["sigs"])
    if spec["i"] % 29 == 0:
        out["sample"] = gen.jsonable(dict(part="injected", election=el.meta, B=B, alphas=alphas,
                                          last_targets=targets, last_lists=dict(lhs=lhs, rhs=rhs, stop=stop),
                                          decision_rows=len(rows)))
    return out


FEASIBLE_SIGNS = [("-", "-", "-"), ("-", "-", "+"), ("-", "+", "+"), ("+", "+", "+")]


def finalize(agg):
    c = agg["counters"]
    if not c.get("full_runs") or not c.get("injected_rounds") or not c.get("invalid_list_runs"):
        return "a workload part did not run", {}
    rows = {tuple(__import__("json").loads(r)) for r in agg["sets"].get("decision_rows_injected", ())}
    missing = []
    for sg in FEASIBLE_SIGNS:
        for call in ("left", "right", "none"):
            for st in (True, False):
                if ("injected",) + sg + (call, st) not in rows:
                    missing.append(sg + (call, st))
    if missing:
        return f"decision-table rows never reached: {missing[:6]}", {}
    return None, dict(decision_rows_reached=len(rows))
