"""Calling the real ModelClient on generated inputs; wrappers and probes (DESIGN.md section 2)."""
import copy
import functools
import hashlib
import traceback

import numpy as np
import pandas as pd

from . import env

_client_mod = None


def client_mod():
    global _client_mod
    if _client_mod is None:
        _client_mod = env.import_elexmodel()
    return _client_mod


def default_call(**kw):
    call = dict(
        estimands=["turnout"],
        prediction_intervals=[0.7, 0.9],
        percent_reporting_threshold=100,
        pi_method="nonparametric",
        aggregates=["postal_code", "unit"],
        features=[],
        fixed_effects={},
        model_parameters={},
        handle_unreporting="drop",
        save_output=[],
        lhs_called_contests=[],
        rhs_called_contests=[],
        stop_model_call=[],
    )
    call.update(kw)
    return call


OMIT = object()


def run_estimates(el, feed, call, client=None, want_client=False, shared_model_parameters=None,
                  inputs_from_storage=False, own_feed=False):
    """Run ModelClient.get_estimates on deep copies of everything.  Returns (results|None, exc|None[, client]).

    shared_model_parameters: pass the caller's OWN dict object as model_parameters (no copy) - callers reuse one
    settings dict across runs - or harness.OMIT to leave the argument out (the signature's default)."""
    cm = client_mod()
    if client is None:
        client = cm.ModelClient()
    call = copy.deepcopy(call)
    if shared_model_parameters is not None:
        call["model_parameters"] = shared_model_parameters
    kwargs = dict(
        features=call["features"],
        aggregates=call["aggregates"],
        fixed_effects=call["fixed_effects"],
        pi_method=call["pi_method"],
        save_output=call["save_output"],
        handle_unreporting=call["handle_unreporting"],
    )
    for k in ("lhs_called_contests", "rhs_called_contests", "stop_model_call"):
        if call.get(k):
            kwargs[k] = call[k]
    res, exc = None, None
    try:
        res = client.get_estimates(
            feed if own_feed else feed_argument(feed, call),  # own_feed: the caller's frame itself, not a copy
            el.election_id,
            el.office,
            call["estimands"],
            prediction_intervals=call["prediction_intervals"],
            percent_reporting_threshold=call["percent_reporting_threshold"],
            geographic_unit_type=el.geo_type,
            **({} if inputs_from_storage else dict(raw_config=copy.deepcopy(el.config),
                                                    preprocessed_data=baseline_argument(el))),
            **({} if call["model_parameters"] is OMIT else dict(model_parameters=call["model_parameters"])),
            **kwargs,
        )
    except Exception as e:  # noqa: BLE001 - the monitor decides what an exception means
        e._verif_tb = traceback.format_exc()
        exc = e
    if want_client:
        return res, exc, client
    return res, exc


def baseline_argument(el):
    """The baseline file handed to the client: el.pre, or the larger file it was cut from (rows of states the config
    does not name for this office), if the case has one."""
    extra = getattr(el, "pre_extra", None)
    if extra is None:
        return _row_order(el, el.pre.copy(deep=True))
    import pandas as pd

    extra = extra[[c for c in el.pre.columns if c in extra.columns]]
    parts = [extra, el.pre] if getattr(el, "pre_extra_first", False) else [el.pre, extra]
    f = pd.concat(parts).reset_index(drop=True)
    for c in el.pre.columns:
        try:
            f[c] = f[c].astype(el.pre[c].dtype)
        except (TypeError, ValueError):
            pass
    return _row_order(el, f)


def _row_order(el, f):
    """Baseline files are not always grouped by state: a national file in fips order interleaves the states' rows
    (AL=01 before AK=02).  el.meta["baseline_rows_shuffled"] = seed: the file handed to the client has its rows in a
    random order (row labels 0..n-1 as after reading a csv); the checks keep working on el.pre."""
    sd = el.meta.get("baseline_rows_shuffled")
    if not sd:
        return f
    return f.sample(frac=1.0, random_state=int(sd)).reset_index(drop=True)


def feed_argument(feed, call):
    """The live feed as the client accepts it: a DataFrame, or (call["feed_as_lists"]) the documented "list of lists"
    whose first element is the header, with plain python values as a JSON / database client would deliver them."""
    if not call.get("feed_as_lists"):
        return feed.copy(deep=True)
    rows = [list(feed.columns)]
    for rec in feed.to_dict(orient="records"):
        row = []
        for c in feed.columns:
            v = rec[c]
            if hasattr(v, "item"):
                v = v.item()
            row.append(v)
        rows.append(row)
    return rows


def run_estimates_shared(el, feed, call, client, objs):
    """Like run_estimates but hands over the caller's OWN objects (no copies): objs = dict(feed, config, pre,
    model_parameters, estimands, prediction_intervals, aggregates, features, fixed_effects) created once by the caller
    and reused for several calls, as a long-running service would do."""
    # (inputs_from_storage of run_estimates: config and preprocessed data are NOT handed over, the client fetches them)
    kwargs = dict(features=objs["features"], aggregates=objs["aggregates"], fixed_effects=objs["fixed_effects"],
                  pi_method=call["pi_method"], save_output=objs["save_output"],
                  handle_unreporting=call["handle_unreporting"])
    res, exc = None, None
    try:
        res = client.get_estimates(
            objs["feed"], el.election_id, el.office, objs["estimands"], prediction_intervals=objs["prediction_intervals"],
            percent_reporting_threshold=call["percent_reporting_threshold"], geographic_unit_type=el.geo_type,
            raw_config=objs["config"], preprocessed_data=objs["pre"], model_parameters=objs["model_parameters"], **kwargs)
    except Exception as e:  # noqa: BLE001
        e._verif_tb = traceback.format_exc()
        exc = e
    return res, exc


def shared_objects(el, feed, call):
    c = copy.deepcopy(call)
    return dict(feed=feed.copy(deep=True), config=copy.deepcopy(el.config), pre=baseline_argument(el),
                model_parameters=c["model_parameters"], estimands=c["estimands"],
                prediction_intervals=c["prediction_intervals"], aggregates=c["aggregates"], features=c["features"],
                fixed_effects=c["fixed_effects"], save_output=c["save_output"])


def exc_info(exc):
    if exc is None:
        return None
    tb = getattr(exc, "_verif_tb", "")
    frames = [ln.strip() for ln in tb.splitlines() if ln.strip().startswith("File ")]
    where = ""
    for ln in reversed(frames):
        if "/elexmodel/" in ln:
            where = ln
            break
    return dict(type=type(exc).__name__, msg=str(exc)[:300], where=where, tb_tail=tb[-1500:])


# ---------------------------------------------------------------------------------------------------------------
# wrappers


class Recorder:
    """Counts and stores what a wrapper observed.  Single-threaded use only (the code under test is sequential,
    except C19 which uses its own lock-protected log)."""

    def __init__(self):
        self.events = []
        self.hits = {}

    def hit(self, name):
        self.hits[name] = self.hits.get(name, 0) + 1

    def add(self, **ev):
        self.events.append(ev)


class patched:
    """Context manager: replace attributes on classes / modules, restore on exit."""

    def __init__(self):
        self._undo = []

    def set(self, obj, name, value):
        self._undo.append((obj, name, obj.__dict__.get(name, _MISSING) if hasattr(obj, "__dict__") else _MISSING,
                           getattr(obj, name, _MISSING)))
        setattr(obj, name, value)

    def wrap(self, obj, name, before=None, after=None):
        """before(args, kwargs) -> token ; after(token, args, kwargs, result, exc)."""
        orig = getattr(obj, name)

        @functools.wraps(orig)
        def wrapper(*args, **kwargs):
            tok = before(args, kwargs) if before else None
            try:
                res = orig(*args, **kwargs)
            except BaseException as e:  # noqa: BLE001
                if after:
                    after(tok, args, kwargs, None, e)
                raise
            if after:
                after(tok, args, kwargs, res, None)
            return res

        wrapper._verif_orig = orig
        self.set(obj, name, wrapper)
        return orig

    def __enter__(self):
        return self

    def __exit__(self, *a):
        for obj, name, own, _ in reversed(self._undo):
            if own is _MISSING:
                try:
                    delattr(obj, name)
                except AttributeError:
                    pass
            else:
                setattr(obj, name, own)
        self._undo.clear()
        return False


_MISSING = object()


def digest(a):
    """sha1 of the bytes of an array-like (dtype and shape included)."""
    if a is None:
        return "None"
    if isinstance(a, (pd.DataFrame, pd.Series)):
        a = a.values
    if isinstance(a, (list, tuple)):
        a = np.asarray(a)
    if isinstance(a, np.ndarray):
        if a.dtype == object:
            return hashlib.sha1(repr(a.tolist()).encode()).hexdigest()[:16]
        b = np.ascontiguousarray(a)
        h = hashlib.sha1()
        h.update(str(b.dtype).encode())
        h.update(str(b.shape).encode())
        h.update(b.tobytes())
        return h.hexdigest()[:16]
    return hashlib.sha1(repr(a).encode()).hexdigest()[:16]


def frame_digest(df):
    """Canonical digest of a returned table: column names and order, dtypes, values (NaN-stable)."""
    h = hashlib.sha1()
    for c in df.columns:
        h.update(str(c).encode())
        s = df[c]
        h.update(str(s.dtype).encode())
        v = s.to_numpy()
        if v.dtype.kind in "fiub":
            h.update(np.ascontiguousarray(v).tobytes())
        else:
            h.update(repr([None if (isinstance(x, float) and x != x) else x for x in v.tolist()]).encode())
    return h.hexdigest()[:20]


def results_digest(res):
    return {k: frame_digest(v) for k, v in sorted(res.items())}


def fast_boot_sigma(p, n_resamples=300):
    """Patch elexmodel.utils.math_utils.boot_sigma (looked up through the module at call time by GaussianModel)
    with the real function called with fewer resamples.  Same code path, ~30x cheaper; used by checks whose
    property does not concern the value of sigma (never by C12/C15)."""
    client_mod()
    from elexmodel.utils import math_utils

    orig = math_utils.boot_sigma

    def boot_sigma(data, conf, num_iterations=10000, winsorize=False, **kw):
        return orig(data, conf, num_iterations=n_resamples, winsorize=winsorize, **kw)

    boot_sigma._verif_orig = orig
    p.set(math_utils, "boot_sigma", boot_sigma)
