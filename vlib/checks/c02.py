"""C02 - every aggregate equals the sum of its units; levels agree; intervals on the right row."""
from .. import tablecheck
from . import common

PROPERTY = "C02"
LEVEL = "exploration"
RULE = ("same generator as C01 (all estimators, offices, policies, aggregate lists, 1-3 interval levels). For vote "
        "counts every group's pred (nonparametric: also lower/upper) is re-summed from the unit rows with a python "
        "loop and finer tables are summed onto coarser ones; for the bootstrap pred_turnout / pred_margin are "
        "re-derived from unit rows and EVERY aggregate interval is recomputed group by group from the model's stored "
        "draw matrices and compared with the row it was stored on. Non-trivial: completed run in which some group has "
        "no nonreporting unit and some group has no counted unit (>=3 groups); distinct = distinct case signature")
ASSUMPTIONS = ["bootstrap identities are checked on rows that are neither called nor stop-listed",
               "gaussian aggregate bounds are not sums of unit bounds; for them only row-local relations are checked "
               "here (C15 recomputes them exactly)"]
BATCH = {"quick": 8, "thorough": 25}
BUDGET = {"quick": 120, "thorough": 1500}
MIN_NONTRIVIAL = {"quick": 15, "thorough": 40}
N = {"quick": 360, "thorough": 12000}


def cases(tier, seed):
    out = []
    for i in range(N[tier]):
        o = {}
        if i % 4 == 0:
            o = dict(district=True, estimator="bootstrap" if i % 8 == 0 else None, must_aggregates=["county_fips"])
        if i % 4 == 1:  # hamlet counties: groups whose predicted turnout is a fraction of a vote
            o = dict(el_tiny_county=True, estimator="bootstrap" if i % 8 == 1 else None, must_aggregates=["county_fips"],
                     feed_frac_reporting=0.5, feed_p_partial=0.2)
        if i % 12 == 9 and i % 8 not in (0, 1):  # integer grouping columns (nonparametric / gaussian only)
            o = dict(int_key=True, district=True, feed_n_unexpected=0, must_aggregates=["district"],
                     estimator=["nonparametric", "gaussian"][(i // 12) % 2])
        if i % 12 == 3:
            # several states that reuse the same district labels, groups of very different size: some district groups
            # hold enough calibration units for a gaussian model of their own, others fall back to their state
            o = dict(district=True, estimator="gaussian", el_n_states=int(2 + i % 3), el_n_units=int(220 + 10 * (i % 9)),
                     el_county_size_spread=1.0, must_aggregates=["district"], feed_frac_reporting=0.6)
        if i % 12 == 6:  # dtype variety: the grouping column is a categorical with levels no unit has
            o = dict(cat_key=True, fixed_effects={}, district=bool(i % 24 == 6))
        out.append(dict(seed=seed, i=i, o=o, polls=(3 if i % 5 == 3 else 0), shared_feed=bool(i % 10 == 3)))
    return out


def run_case(spec, inputs=None):
    def post(out, ctx):
        c = out["counters"]
        out["nontrivial"] = bool(c.get("groups_checked", 0) >= 3 and c.get("groups_without_nonreporting")
                                 and c.get("groups_without_counted_units"))
        if spec["i"] % 97 == 0:
            out["sample"] = common.sample_of(ctx, dict(counters=dict(c)))

    out, _ = common.run_table_case(spec, PROPERTY, tablecheck.check_aggregation, inputs=inputs, post=post)
    return out


def finalize(agg):
    c = agg["counters"]
    for est in ("nonparametric", "gaussian", "bootstrap"):
        if c.get(f"runs_{est}", 0) == 0:
            return f"no completed run for estimator {est}", {}
    if c.get("bootstrap_intervals_recomputed", 0) == 0:
        return "bootstrap interval reference never evaluated", {}
    if c.get("cross_level_pairs", 0) == 0:
        return "no cross-level comparison evaluated", {}
    return None, {}
