#!/bin/sh
# usage: tools/collect_seed5.sh C01  -- round 5: /tmp/seed5_<ID> -> seeded/<ID>e
ID=$1; W=/tmp/seed5_$ID; D=/verif/seeded/${ID}e
mkdir -p $D
git -C $W diff -- src > $D/patch.diff
cp $W/demo_$ID.py $D/ 2>/dev/null || cp $W/demo*.py $D/
cp $W/meta.json $D/meta.json
echo "$ID: $(wc -l < $D/patch.diff) lines"
