#!/bin/sh
# usage: tools/collect_seed4.sh C01  -- round 4: /tmp/seed4_<ID> -> seeded/<ID>d
ID=$1; W=/tmp/seed4_$ID; D=/verif/seeded/${ID}d
mkdir -p $D
git -C $W diff -- src > $D/patch.diff
cp $W/demo_$ID.py $D/ 2>/dev/null || cp $W/demo*.py $D/
cp $W/meta.json $D/meta.json
echo "$ID: $(wc -l < $D/patch.diff) lines"
