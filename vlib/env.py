"""Process environment for every worker: must be imported before elexmodel.

* pins BLAS threads (bit-for-bit comparisons compare the program, not the BLAS scheduler)
* sets the storage environment elexmodel reads once at import (utils/file_utils.py)
* puts ${VERIF_REPO:-/repo}/src first on sys.path and asserts elexmodel is imported from there
"""
import os
import sys

for _v in ("OMP_NUM_THREADS", "OPENBLAS_NUM_THREADS", "MKL_NUM_THREADS", "NUMEXPR_NUM_THREADS"):
    os.environ.setdefault(_v, "1")
os.environ.setdefault("APP_ENV", "local")
os.environ.setdefault("DATA_ENV", "dev")
os.environ.setdefault("MODEL_S3_BUCKET", "verif-bucket")
os.environ.setdefault("MODEL_S3_PATH_ROOT", "verif-root")
os.environ.setdefault("APP_LOG_LEVEL", "CRITICAL")
os.environ.setdefault("AWS_DEFAULT_REGION", "us-east-1")
os.environ.setdefault("AWS_ACCESS_KEY_ID", "x")
os.environ.setdefault("AWS_SECRET_ACCESS_KEY", "x")
os.environ.setdefault("AWS_EC2_METADATA_DISABLED", "true")
# the guard recorded in MANIFEST.hooks: the harness switches its probes on with it; the repository itself
# contains no hook code (all instrumentation is attached from outside), so it is informational there.
os.environ.setdefault("ELEXMODEL_VERIF", "1")

REPO = os.environ.get("VERIF_REPO", "/repo")
_src = os.path.join(REPO, "src")
if _src in sys.path:
    sys.path.remove(_src)
sys.path.insert(0, _src)

VERIF_DIR = os.path.dirname(os.path.dirname(os.path.abspath(__file__)))


def import_elexmodel():
    import logging
    import warnings

    warnings.filterwarnings("ignore", category=FutureWarning)
    warnings.filterwarnings("ignore", category=DeprecationWarning)
    import elexmodel  # noqa: F401
    import elexmodel.client as client

    here = os.path.realpath(os.path.dirname(client.__file__))
    want = os.path.realpath(os.path.join(_src, "elexmodel"))
    if here != want:
        raise RuntimeError(f"elexmodel imported from {here}, expected {want}")
    logging.getLogger("elexmodel").setLevel(logging.CRITICAL)
    logging.getLogger("elexsolver").setLevel(logging.CRITICAL)
    return client
