"""C14 - enough reporting units means an estimate; too few means the dedicated error."""
import math

import numpy as np
import pandas as pd

from .. import cases as cases_mod
from .. import gen, harness

PROPERTY = "C14"
LEVEL = "exploration"
RULE = ("(gate) full get_estimates runs with exactly n modelled reporting units for n in {min-2..min+3} around the "
        "largest minimum of the requested levels (alpha from a 60-value grid, single and multiple levels, three "
        "estimators): the dedicated error iff n < minimum, any other exception at n >= minimum is a violation; "
        "(arithmetic, exhaustive) the real get_unit_prediction_intervals of the nonparametric and gaussian models "
        "called for EVERY n from the minimum to n_max (quick 400, thorough 3000) x 40 alpha values with the solver's "
        "fit replaced by a constant-time stub: training rows >= 1, calibration rows >= 1, alpha(1+1/n_cal) <= 1, no "
        "exception; (real solver, sampled) the same call with the real solver on random (alpha, n); (duplicates) a "
        "duplicated reporting unit id raises ModelClientException and not its subclass. Non-trivial: a judged "
        "(estimator, alpha, n) with n within 3 of the minimum or a split whose training fraction was capped; "
        "distinct = (part, estimator, alpha, n - minimum clipped to [-2,3], outcome)")
ASSUMPTIONS = ["in the exhaustive sweep only the solver is stubbed (QuantileRegressionSolver.fit sets constant "
               "coefficients; an empty training set raises ZeroDivisionError as the real solver does); the split "
               "arithmetic, conformal quantile and interval code are the real ones",
               "exhaustive refers to the arithmetic sweep over n and the alpha grid, not to the gate runs"]
BATCH = {"quick": 4, "thorough": 6}
BUDGET = {"quick": 150, "thorough": 1500}
MIN_NONTRIVIAL = {"quick": 20, "thorough": 60}
NMAX = {"quick": 400, "thorough": 3000}
CASE_TIMEOUT = 1200
ALPHA_GRID = sorted(set([round(x, 3) for x in np.linspace(0.05, 0.98, 50)] + [0.5, 0.6, 0.7, 0.8, 0.9, 0.95, 0.99,
                                                                            0.975, 0.333, 0.667]))
SWEEP_ALPHAS = sorted(set([round(x, 3) for x in np.linspace(0.05, 0.99, 34)] + [0.5, 0.7, 0.8, 0.9, 0.95, 0.99]))


def cases(tier, seed):
    out = []
    # gate
    n_gate = 32 if tier == "quick" else 400
    for i in range(n_gate):
        out.append(dict(part="gate", seed=seed, i=i))
    # arithmetic sweep: one spec per (estimator, block of n)
    nmax = NMAX[tier]
    block = 50 if tier == "quick" else 100
    for lo in range(0, nmax + 1, block):
        out.append(dict(part="sweep", estimator="nonparametric", lo=lo, hi=min(lo + block - 1, nmax), seed=seed, i=lo,
                        tier=tier))
    for lo in range(0, nmax + 1, block * 4):
        out.append(dict(part="sweep", estimator="gaussian", lo=lo, hi=min(lo + block * 4 - 1, nmax), seed=seed, i=lo))
    n_real = 12 if tier == "quick" else 200
    for i in range(n_real):
        out.append(dict(part="real", seed=seed, i=i))
    # the same gate entered through the historical evaluation (the command line's --historical): the estimate run it
    # starts for every historical election must end in the dedicated error too, not in an empty answer
    for i in range(6 if tier == "quick" else 60):
        out.append(dict(part="histgate", seed=seed, i=i))
    n_dup = 12 if tier == "quick" else 40
    for i in range(n_dup):
        out.append(dict(part="dup", seed=seed, i=i))
    return out


def model_for(estimator, mp=None):
    harness.client_mod()
    from elexmodel.models.GaussianElectionModel import GaussianElectionModel
    from elexmodel.models.NonparametricElectionModel import NonparametricElectionModel

    settings = dict(features=[], fixed_effects={}, save_conformalization=False)
    settings.update(mp or {})
    return (NonparametricElectionModel if estimator == "nonparametric" else GaussianElectionModel)(settings)


def minimum_for(estimator, alphas):
    if estimator == "bootstrap":
        return 10
    m = model_for(estimator)
    return max(m.get_minimum_reporting_units(a) for a in alphas)


# ---------------------------------------------------------------------------------------------------------------


def run_case(spec, inputs=None):
    return dict(gate=run_gate, sweep=run_sweep, real=run_real, dup=run_dup, histgate=run_histgate)[spec["part"]](spec)


def run_histgate(spec):
    import copy
    import json
    import os
    import shutil
    import tempfile

    out = dict(violations=[], counters={}, sets={}, sigs=[])
    cm = harness.client_mod()
    i = spec["i"]
    estimator = ["nonparametric", "gaussian"][i % 2]
    alphas = [[0.9], [0.7, 0.9], [0.5]][i % 3]
    nmin = int(math.ceil(minimum_for(estimator, alphas)))
    hist_id = "2026-11-03_USA_G"
    cwd0 = os.getcwd()
    for off in (-1, 0, 4):
        n = nmin + off
        if n < 1:
            continue
        el, feed, call, _ = clean_case(spec, estimator, n, alphas, salt=90 + off)
        cfg = copy.deepcopy(el.config)
        cfg[el.election_id][0]["historical_election"] = [hist_id]
        hist_cfg = {hist_id: copy.deepcopy(el.config[el.election_id])}
        hist = el.pre.copy()
        tr = el.truth.set_index("geographic_unit_fips")
        for c in ("turnout", "dem", "gop"):
            hist[f"results_{c}"] = [int(tr.loc[f, c] * 0.9) + 3 for f in hist.geographic_unit_fips]
        scratch = tempfile.mkdtemp(prefix="verif_c14_")
        res = exc = None
        try:
            os.makedirs(os.path.join(scratch, "config"))
            with open(os.path.join(scratch, "config", f"{el.election_id}.json"), "w") as f:
                json.dump(cfg, f)
            with open(os.path.join(scratch, "config", f"{hist_id}.json"), "w") as f:
                json.dump(hist_cfg, f)
            ddir = os.path.join(scratch, "data", hist_id, el.office)
            os.makedirs(ddir)
            hist.to_csv(os.path.join(ddir, f"data_{el.geo_type}.csv"), index=False)
            os.chdir(scratch)
            with harness.patched() as p:
                harness.fast_boot_sigma(p, 100)
                try:
                    res = cm.HistoricalModelClient().get_historical_evaluation(
                        feed.copy(deep=True), el.election_id, el.office, list(call["estimands"]), list(alphas), 100,
                        el.geo_type, features=list(call["features"]), aggregates=["postal_code"], fixed_effects={},
                        pi_method=estimator, save_output=[], model_parameters=copy.deepcopy(call["model_parameters"]))
                except Exception as e:  # noqa: BLE001
                    import traceback

                    e._verif_tb = traceback.format_exc()
                    exc = e
        finally:
            os.chdir(cwd0)
            shutil.rmtree(scratch, ignore_errors=True)
        out["counters"]["histgate_runs"] = out["counters"].get("histgate_runs", 0) + 1
        outcome = "ok" if exc is None else type(exc).__name__
        where = f"historical evaluation, {estimator} alphas={alphas}, {n} reporting units, minimum {nmin}"
        if off < 0:
            if not (exc is not None and type(exc) is cm.ModelNotEnoughSubunitsException):
                got = outcome if exc is not None else f"an answer ({sorted(res) if isinstance(res, dict) else type(res).__name__})"
                out["violations"].append(dict(key=f"C14/historical/too-few-units-but-{outcome}",
                                              msg=f"{where}: expected ModelNotEnoughSubunitsException, got {got}",
                                              witness=dict(exc=harness.exc_info(exc))))
        else:
            if exc is not None or not (isinstance(res, dict) and hist_id in res):
                info = harness.exc_info(exc)
                out["violations"].append(dict(key=f"C14/historical/{estimator}/enough-units-but-{outcome}",
                                              msg=f"{where}: " + (f"{info['type']}: {info['msg']} at {info['where']}" if info
                                                                   else f"no evaluation for {hist_id} returned"),
                                              witness=dict(exc=info)))
        out["sigs"].append(["histgate", estimator, alphas[0], off, outcome])
    out["nontrivial"] = True
    return out


def clean_case(spec, estimator, n_reporting, alphas, n_total=None, salt=0):
    """An election in which exactly n_reporting units are modelled and reporting."""
    rng = gen.rng_for(spec["seed"], PROPERTY, spec["i"], salt=salt)
    n_total = n_total or (n_reporting + int(rng.integers(3, 12)))
    o = dict(estimator=estimator, district=False, el_n_states=1, el_n_units=max(n_total, 4), el_counties_per_state=2,
             el_n_zero_baseline=0, el_tiny_county=False, el_uncontested=False, el_noise="gauss", el_noise_scale=0.03, feed_n_missing=0, feed_n_unexpected=0,
             feed_p_strange=0.0, feed_boundary=False, threshold=100, policy="drop", alphas=list(alphas),
             aggregates=["postal_code", "unit"], fixed_effects={}, features=[] if estimator != "bootstrap" else None,
             n_estimands=1, feed_frac_reporting=1.0, null_unused=False, extra_state_rows=False,
             allow_pointer_config=False,
             mp=dict(fit_turnout_outlier_model=False, fit_margin_outlier_model=False, turnout_factor_lower=0.0,
                     turnout_factor_upper=1e9))
    if estimator == "bootstrap":
        o.pop("features")
        o.update(B=5, lambda_=1.0)
    el, feed, status, call = cases_mod.build(spec["seed"], PROPERTY, spec["i"] * 7 + salt, o)
    call["model_parameters"].pop("unit_blocklist", None)
    call["model_parameters"].pop("postal_code_blocklist", None)
    # exactly n_reporting units at 100 %, all others at 0 %
    feed = feed.sort_values("geographic_unit_fips").reset_index(drop=True)
    base = el.pre.set_index("geographic_unit_fips")
    keep = 0
    for j in range(len(feed)):
        f = feed.loc[j, "geographic_unit_fips"]
        if keep < n_reporting and base.loc[f, "baseline_turnout"] > 0:
            feed.loc[j, "percent_expected_vote"] = 100.0
            if feed.loc[j, "results_turnout"] <= 0:
                feed.loc[j, ["results_turnout", "results_dem", "results_gop"]] = [10, 5, 4]
            keep += 1
        else:
            feed.loc[j, "percent_expected_vote"] = 0.0
            feed.loc[j, ["results_turnout", "results_dem", "results_gop"]] = [0, 0, 0]
    if keep != n_reporting:  # a mistake of this harness, never a verdict on the repository
        raise RuntimeError(f"clean_case built {keep} reporting units, {n_reporting} wanted")
    return el, feed, call, keep


def run_gate(spec):
    out = dict(violations=[], counters={}, sets={}, sigs=[])
    cm = harness.client_mod()
    from elexmodel.handlers.data.CombinedData import CombinedDataHandler

    rng = gen.rng_for(spec["seed"], PROPERTY, spec["i"], salt=11)
    estimator = ["nonparametric", "nonparametric", "gaussian", "bootstrap"][spec["i"] % 4]
    k = int(gen.choice(rng, [1, 1, 2, 3]))
    alphas = [float(ALPHA_GRID[int(j)]) for j in rng.choice(len(ALPHA_GRID), size=k, replace=False)]
    if estimator == "nonparametric":
        alphas = [a for a in alphas if a <= 0.96] or [0.9]  # keep the minimum (and the election) small
    nmin = int(math.ceil(minimum_for(estimator, alphas)))
    for off in (-2, -1, 0, 1, 2, 3):
        n = nmin + off
        if n < 1:
            continue
        el, feed, call, got = clean_case(spec, estimator, n, alphas, salt=off + 5)
        seen = {}
        with harness.patched() as p:
            harness.fast_boot_sigma(p, 100)

            def after(tok, args, kwargs, res, exc):
                if res is not None:
                    seen["n"] = int(res[0].shape[0])

            p.wrap(CombinedDataHandler, "get_units", after=after)
            res, exc = harness.run_estimates(el, feed, call)
        out["counters"]["gate_runs"] = out["counters"].get("gate_runs", 0) + 1
        n_obs = seen.get("n")
        if n_obs is None:
            out["inconclusive"] = "get_units wrapper not reached"
            continue
        need = max(model_min(estimator, a) for a in alphas)
        should_fail = n_obs < need
        where = f"{estimator} alphas={alphas} n={n_obs} minimum={need}"
        outcome = "ok" if exc is None else type(exc).__name__
        if should_fail:
            if not (exc is not None and type(exc) is cm.ModelNotEnoughSubunitsException):
                out["violations"].append(dict(key=f"C14/gate/too-few-units-but-{outcome}", msg=f"{where}: expected "
                                              f"ModelNotEnoughSubunitsException, got {outcome}",
                                              witness=dict(exc=harness.exc_info(exc))))
        else:
            if exc is not None:
                info = harness.exc_info(exc)
                at = "at-minimum" if n_obs == math.ceil(need) else "above-minimum"
                out["violations"].append(dict(
                    key=f"C14/gate/{estimator}/enough-units-but-{outcome}/{at}",
                    msg=f"{where}: run raised {outcome}: {info['msg']} at {info['where']}",
                    witness=dict(exc=info, alphas=alphas, n=n_obs)))
        out["sigs"].append(["gate", estimator, alphas[0], max(-2, min(3, n_obs - math.ceil(need))), outcome])
    # history on ONE client: an earlier request that needed many more units (stricter level, other estimator; it may
    # itself have succeeded or raised) must not raise the bar of a later request
    client = cm.ModelClient()
    for first_n in (45, 5):
        el_a, feed_a, call_a, _ = clean_case(spec, "nonparametric", first_n, [0.95], salt=50 + first_n)
        with harness.patched() as p:
            harness.run_estimates(el_a, feed_a, call_a, client=client)
        el_b, feed_b, call_b, _ = clean_case(spec, estimator, max(nmin, 1), alphas, salt=60 + first_n)
        with harness.patched() as p:
            harness.fast_boot_sigma(p, 100)
            res_b, exc_b = harness.run_estimates(el_b, feed_b, call_b, client=client)
        out["counters"]["gate_history_runs"] = out["counters"].get("gate_history_runs", 0) + 1
        if exc_b is not None:
            info = harness.exc_info(exc_b)
            out["violations"].append(dict(
                key=f"C14/gate-history/{estimator}/enough-units-but-{info['type']}",
                msg=f"{estimator} alphas={alphas} with {max(nmin, 1)} reporting units (its minimum) on a client that "
                    f"earlier ran nonparametric [0.95] with {first_n} units: {info['type']}: {info['msg']}",
                witness=dict(exc=info)))
    # the feed lists ONLY the units that have reported so far (under the drop policy the others are then not even
    # outstanding units of the run) or the whole contest is smaller than the minimum and complete: still too few
    for off in (-3, -1):
        n = nmin + off
        if n < 1:
            continue
        for variant in ("feed-lists-reported-units-only", "small-contest-all-in"):
            el_o, feed_o, call_o, _ = clean_case(spec, estimator, n, alphas, salt=75 + off)
            keep_ids = set(feed_o.loc[feed_o.percent_expected_vote >= 100, "geographic_unit_fips"])
            feed_o = feed_o[feed_o.geographic_unit_fips.isin(keep_ids)].reset_index(drop=True)
            if variant == "small-contest-all-in":
                el_o.pre = el_o.pre[el_o.pre.geographic_unit_fips.isin(keep_ids)].reset_index(drop=True)
            with harness.patched() as p:
                harness.fast_boot_sigma(p, 100)
                _, exc_o = harness.run_estimates(el_o, feed_o, call_o)
            out["counters"]["gate_only_reported_runs"] = out["counters"].get("gate_only_reported_runs", 0) + 1
            outcome = "ok" if exc_o is None else type(exc_o).__name__
            if not (exc_o is not None and type(exc_o) is cm.ModelNotEnoughSubunitsException):
                info = harness.exc_info(exc_o)
                out["violations"].append(dict(
                    key=f"C14/gate/too-few-units-but-{outcome}/{variant}",
                    msg=f"{estimator} alphas={alphas}, {variant}: {n} reporting units (minimum {nmin}), no unit "
                        f"outstanding; expected ModelNotEnoughSubunitsException, got {outcome}"
                        + (f": {info['msg']} at {info['where']}" if info else ""), witness=dict(exc=info)))
            out["sigs"].append(["gate-only-reported", estimator, variant, off, outcome])
    # start of the night: no expected unit reaches the model at all (0 is below every minimum => dedicated error)
    el_c, feed_c, call_c, _ = clean_case(spec, estimator, max(nmin, 1) + 2, alphas, salt=70)
    stray = feed_c.iloc[0:2].copy()
    stray["geographic_unit_fips"] = [f"{str(x)[:2]}999_9{j}" for j, x in enumerate(stray["geographic_unit_fips"])]
    all_states = sorted(set(el_c.pre.postal_code.astype(str)))
    nothing = {
        "empty-frame": (feed_c.iloc[0:0].copy(), {}, {}),
        "header-only-lists": (feed_c.iloc[0:0].copy(), dict(feed_as_lists=True), {}),
        "only-unexpected-units": (stray, {}, {}),
        "every-state-blocklisted": (feed_c, {}, dict(postal_code_blocklist=all_states)),
        "empty-frame-zero-policy": (feed_c.iloc[0:0].copy(), dict(handle_unreporting="zero"), {}),
    }
    for name, (f_, extra_call, extra_mp) in nothing.items():
        c_ = dict(call_c, **extra_call)
        c_["model_parameters"] = dict(call_c["model_parameters"], **extra_mp)
        with harness.patched() as p:
            harness.fast_boot_sigma(p, 100)
            _, exc_n = harness.run_estimates(el_c, f_, c_)
        out["counters"]["gate_nothing_runs"] = out["counters"].get("gate_nothing_runs", 0) + 1
        outcome = "ok" if exc_n is None else type(exc_n).__name__
        if not (exc_n is not None and type(exc_n) is cm.ModelNotEnoughSubunitsException):
            info = harness.exc_info(exc_n)
            out["violations"].append(dict(
                key=f"C14/gate/no-modelled-unit/{name}/{outcome}",
                msg=f"{estimator} alphas={alphas}, {name}: no unit reaches the model (0 < minimum {nmin}); expected "
                    f"ModelNotEnoughSubunitsException, got {outcome}" + (f": {info['msg']} at {info['where']}" if info else ""),
                witness=dict(exc=info)))
        out["sigs"].append(["gate-nothing", estimator, name, outcome])
    # several states, one of them a single fully reported unit (a layout in which some group holds exactly one unit of
    # whatever subset the estimator carves out of the reporting units); well above the minimum => must complete
    for pos in ("first", "last"):
        for mseed in (None, 1, 2, 3):
            el_s, feed_s, call_s, _ = clean_case(spec, estimator, max(nmin, 1) + 30, alphas, salt=80)
            row = el_s.pre.iloc[[0]].copy()
            st2, cty2 = gen.STATES[1], "11001"
            fips2 = (f"{row['district'].iloc[0]}_{cty2}_001" if el_s.district else f"{cty2}_001")
            row["postal_code"], row["county_fips"], row["geographic_unit_fips"] = st2, cty2, fips2
            el_s.pre = pd.concat([row, el_s.pre] if pos == "first" else [el_s.pre, row]).reset_index(drop=True)
            el_s.config[el_s.election_id][0]["states"] = sorted(set(el_s.config[el_s.election_id][0]["states"]) | {st2})
            frow = feed_s.iloc[[0]].copy()
            frow["postal_code"], frow["geographic_unit_fips"], frow["percent_expected_vote"] = st2, fips2, 100.0
            for c_ in ("turnout", "dem", "gop"):
                frow[f"results_{c_}"] = int(row[f"baseline_{c_}"].iloc[0])
            feed_s = pd.concat([frow, feed_s] if pos == "first" else [feed_s, frow]).reset_index(drop=True)
            if mseed is not None:
                call_s["model_parameters"]["seed"] = mseed
            with harness.patched() as p:
                harness.fast_boot_sigma(p, 100)
                _, exc_s = harness.run_estimates(el_s, feed_s, call_s)
            out["counters"]["gate_single_unit_state_runs"] = out["counters"].get("gate_single_unit_state_runs", 0) + 1
            if exc_s is not None:
                info = harness.exc_info(exc_s)
                out["violations"].append(dict(
                    key=f"C14/gate/{estimator}/enough-units-but-{info['type']}/single-unit-state",
                    msg=f"{estimator} alphas={alphas}, {max(nmin, 1) + 31} reporting units (minimum {nmin}), a second state "
                        f"with one fully reported unit listed {pos}, seed {mseed}: {info['type']}: {info['msg']} at "
                        f"{info['where']}", witness=dict(exc=info)))
            out["sigs"].append(["gate-single-unit-state", estimator, pos, "ok" if exc_s is None else type(exc_s).__name__])
    out["nontrivial"] = True
    if spec["i"] % 9 == 0:
        out["sample"] = dict(part="gate", estimator=estimator, alphas=alphas, minimum=nmin, judged=out["sigs"])
    return out


def model_min(estimator, alpha):
    if estimator == "bootstrap":
        return 10
    return model_for(estimator).get_minimum_reporting_units(alpha)


class StubSolver:
    """Replaces QuantileRegressionSolver.fit / predict: constant-time, constant coefficients that depend on tau."""

    @staticmethod
    def install(p):
        from elexsolver.QuantileRegressionSolver import QuantileRegressionSolver

        def fit(self, x, y, taus=0.5, weights=None, lambda_=0.0, fit_intercept=True, regularize_intercept=False,
                n_feat_ignore_reg=0, normalize_weights=True):
            if weights is None:
                weights = np.ones((y.shape[0],))
            if normalize_weights and np.sum(weights) == 0:
                raise ZeroDivisionError
            if isinstance(taus, float):
                taus = [taus]
            for tau in taus:
                self.coefficients.append(np.full((x.shape[1],), (tau - 0.5) * 0.2))

        p.set(QuantileRegressionSolver, "fit", fit)


def frames_for(n, m, rng, groups=False):
    w = np.exp(rng.uniform(np.log(50), np.log(20000), size=n + m)).round()
    resid = rng.normal(0, 0.1, size=n)
    rep = pd.DataFrame(dict(
        postal_code="AA", geographic_unit_fips=[f"u{i}" for i in range(n)], reporting=1, unit_category="expected",
        last_election_results_turnout=w[:n], residuals_turnout=resid, results_turnout=(w[:n] * (1 + resid)).round(),
        county_fips=[f"c{i % 3}" for i in range(n)],
    ))
    non = pd.DataFrame(dict(
        postal_code="AA", geographic_unit_fips=[f"v{i}" for i in range(m)], reporting=0, unit_category="expected",
        last_election_results_turnout=w[n:], results_turnout=0.0, county_fips=[f"c{i % 3}" for i in range(m)],
    ))
    return rep, non


def judge_split(model, estimator, rep, non, alpha, n, out, part):
    """Calls the real get_unit_predictions + get_unit_prediction_intervals, records the split."""
    from elexmodel.models.ConformalElectionModel import ConformalElectionModel

    rec = {}
    orig = ConformalElectionModel.get_unit_prediction_interval_bounds

    def bounds(self, reporting_units, nonreporting_units, conf_frac, alpha_, estimand):
        rec["conf_frac"] = conf_frac
        r = orig(self, reporting_units, nonreporting_units, conf_frac, alpha_, estimand)
        rec["n_cal"] = int(r.conformalization.shape[0])
        return r

    with harness.patched() as p2:
        p2.set(ConformalElectionModel, "get_unit_prediction_interval_bounds", bounds)
        try:
            model.get_unit_predictions(rep, non, "turnout")
            pi = model.get_unit_prediction_intervals(rep, non, alpha, "turnout")
            exc = None
        except Exception as e:  # noqa: BLE001
            exc, pi = e, None
            import traceback

            e._verif_tb = traceback.format_exc()
    nmin = math.ceil(model.get_minimum_reporting_units(alpha))
    at = "at-minimum" if n == nmin else "above-minimum"
    where = f"{estimator} alpha={alpha} n={n} (minimum {nmin})"
    outcome = "ok"
    if exc is not None:
        info = harness.exc_info(exc)
        outcome = info["type"]
        out["violations"].append(dict(key=f"C14/{part}/{estimator}/{outcome}/{at}",
                                      msg=f"{where}: {outcome}: {info['msg']} at {info['where'][-80:]} "
                                          f"(conf_frac={rec.get('conf_frac')}, n_cal={rec.get('n_cal')})",
                                      witness=dict(alpha=alpha, n=n, rec=rec, exc=info)))
        return outcome, rec
    n_cal = rec.get("n_cal")
    if n_cal is None:
        out["inconclusive"] = "split probe not reached"
        return outcome, rec
    train = n - n_cal
    if train < 1:
        out["violations"].append(dict(key=f"C14/{part}/{estimator}/no-training-unit/{at}", msg=f"{where}: "
                                      f"{train} training rows", witness=dict(alpha=alpha, n=n, rec=rec)))
    if n_cal < 1:
        out["violations"].append(dict(key=f"C14/{part}/{estimator}/no-calibration-unit/{at}", msg=f"{where}: "
                                      f"{n_cal} calibration rows", witness=dict(alpha=alpha, n=n, rec=rec)))
    elif estimator == "nonparametric" and alpha * (1 + 1 / n_cal) > 1:
        out["violations"].append(dict(key=f"C14/{part}/{estimator}/quantile-above-one/{at}", msg=f"{where}: "
                                      f"alpha(1+1/n_cal)={alpha * (1 + 1 / n_cal)}", witness=dict(alpha=alpha, n=n)))
    lo, hi = np.asarray(pi.lower, dtype=float), np.asarray(pi.upper, dtype=float)
    if not (np.isfinite(lo).all() and np.isfinite(hi).all()):
        out["violations"].append(dict(key=f"C14/{part}/{estimator}/non-finite-bounds/{at}", msg=f"{where}: bounds "
                                      f"not finite", witness=dict(alpha=alpha, n=n)))
    return outcome, rec


def run_sweep(spec):
    out = dict(violations=[], counters={}, sets={}, sigs=[])
    harness.client_mod()
    estimator = spec["estimator"]
    rng = gen.rng_for(spec["seed"], PROPERTY, spec["i"], salt=21)
    alphas = SWEEP_ALPHAS if estimator == "nonparametric" else [0.7, 0.9]
    if spec.get("tier") == "quick" and estimator == "nonparametric":
        alphas = SWEEP_ALPHAS[::2] + [0.7, 0.9]
    with harness.patched() as p:
        StubSolver.install(p)
        harness.fast_boot_sigma(p, 20)
        for alpha in alphas:
            model = model_for(estimator)
            nmin = int(math.ceil(model.get_minimum_reporting_units(alpha)))
            for n in range(max(spec["lo"], nmin), spec["hi"] + 1):
                rep, non = frames_for(n, 3, rng)
                model = model_for(estimator)
                outcome, rec = judge_split(model, estimator, rep, non, alpha, n, out, "sweep")
                out["counters"]["sweep_calls"] = out["counters"].get("sweep_calls", 0) + 1
                capped = rec.get("conf_frac") == 0.9
                if n - nmin <= 3 or (capped and n % 97 == 0):
                    out["sigs"].append(["sweep", estimator, alpha, min(3, n - nmin), outcome, bool(capped)])
    out["nontrivial"] = bool(out["sigs"])
    if spec["lo"] == 0 and estimator == "nonparametric":
        out["sample"] = dict(part="sweep", estimator=estimator, n_range=[spec["lo"], spec["hi"]], alphas=alphas[:8],
                             calls=out["counters"].get("sweep_calls"))
    # keep the result small: at most 40 violations per block (they share keys)
    out["violations"] = out["violations"][:40]
    return out


def run_real(spec):
    out = dict(violations=[], counters={}, sets={}, sigs=[])
    harness.client_mod()
    rng = gen.rng_for(spec["seed"], PROPERTY, spec["i"], salt=31)
    with harness.patched() as p:
        harness.fast_boot_sigma(p, 50)
        for _ in range(10):
            estimator = "nonparametric" if rng.random() < 0.75 else "gaussian"
            alpha = float(gen.choice(rng, SWEEP_ALPHAS))
            model = model_for(estimator, dict(robust=bool(rng.random() < 0.5)))
            nmin = int(math.ceil(model.get_minimum_reporting_units(alpha)))
            if nmin > 400:
                continue
            n = nmin + int(gen.choice(rng, [0, 0, 1, 2, 3, 10, 50, 200, 1500]))
            rep, non = frames_for(n, 4, rng)
            outcome, rec = judge_split(model, estimator, rep, non, alpha, n, out, "real-solver")
            out["counters"]["real_solver_calls"] = out["counters"].get("real_solver_calls", 0) + 1
            out["sigs"].append(["real", estimator, alpha, min(3, n - nmin), outcome])
    out["nontrivial"] = bool(out["sigs"])
    return out


def run_dup(spec):
    out = dict(violations=[], counters={}, sets={}, sigs=[])
    cm = harness.client_mod()
    estimator = ["nonparametric", "gaussian", "bootstrap"][spec["i"] % 3]
    alphas = [0.7]
    el, feed, call, got = clean_case(spec, estimator, 30, alphas, salt=77)
    rng = gen.rng_for(spec["seed"], PROPERTY, spec["i"], salt=41)
    rep_rows = feed[feed.percent_expected_vote >= 100]
    dup = rep_rows.iloc[[int(rng.integers(0, len(rep_rows)))]]
    # the reporting unit can appear twice because the live feed lists it twice, or because the baseline does (the
    # join then yields it twice among the modelled reporting units although the feed is clean)
    where = ["feed", "baseline"][(spec["i"] // 3) % 2]
    feed2 = feed
    if where == "feed":
        feed2 = pd.concat([feed, dup]).reset_index(drop=True)
    else:
        f_ = dup.geographic_unit_fips.iloc[0]
        el.pre = pd.concat([el.pre, el.pre[el.pre.geographic_unit_fips == f_]]).reset_index(drop=True)
    with harness.patched() as p:
        harness.fast_boot_sigma(p, 50)
        res, exc = harness.run_estimates(el, feed2, call)
    out["counters"]["duplicate_runs"] = 1
    out["counters"][f"duplicate_in_{where}"] = 1
    outcome = "ok" if exc is None else type(exc).__name__
    if not (exc is not None and type(exc) is cm.ModelClientException):
        out["violations"].append(dict(key=f"C14/duplicate-reporting-id/in-{where}/{estimator}/{outcome}",
                                      msg=f"{estimator}: reporting unit id duplicated in the {where} gave {outcome} "
                                          f"({harness.exc_info(exc)['msg'] if exc else ''})", witness={}))
    out["sigs"].append(["dup", where, estimator, outcome])
    out["nontrivial"] = True
    return out


def finalize(agg):
    c = agg["counters"]
    for k in ("gate_runs", "sweep_calls", "real_solver_calls", "duplicate_runs"):
        if not c.get(k):
            return f"{k} = 0", {}
    return None, dict(sweep_n_max=NMAX[agg["tier"]], sweep_alphas=len(SWEEP_ALPHAS))
