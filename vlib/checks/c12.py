"""C12 - estimates are a deterministic function of the arguments."""
import copy
import json
import os
import subprocess
import sys

from .. import cases as cases_mod
from .. import core, gen, harness

PROPERTY = "C12"
LEVEL = "exploration"
RULE = ("two-run (hyper-property) monitor: for a generated case A (all three estimators) a canonical digest of every "
        "returned table (column names/order, dtypes, value bytes) is compared across histories: fresh client twice; "
        "same client twice; A, B, A on one client with B differing in estimator/estimands/aggregates/seed; twice with the "
        "caller's own argument objects reused (no copies); national "
        "summary after each bootstrap run; and, for a subset, fresh processes with PYTHONHASHSEED 1 and 12345 against "
        "the in-process run (hash seed 0). A different seed setting must be able to change the output (counted). "
        "Non-trivial: completed case with nonreporting units; distinct = (estimator, histories exercised, office "
        "kind, #estimands, fixed effects?)")
ASSUMPTIONS = ["arguments are deep-copied before every call (the client appends to the caller's config feature list)",
               "gaussian runs use the real boot_sigma with 300 instead of 10000 resamples (same code path)",
               "BLAS threads pinned to 1 in all processes"]
BATCH = {"quick": 1, "thorough": 4}
BUDGET = {"quick": 150, "thorough": 1500}
MIN_NONTRIVIAL = {"quick": 10, "thorough": 30}
N = {"quick": 48, "thorough": 1500}
CROSS_EVERY = {"quick": 5, "thorough": 7}  # coprime with 3: every estimator gets cross-process runs
CASE_TIMEOUT = 900


def cases(tier, seed):
    out = [dict(seed=seed, i=i, cross=(i % CROSS_EVERY[tier] == 0)) for i in range(N[tier])]
    # scale: several thousand modelled units with the outlier models on (code paths that subsample or batch only
    # above some size are never entered by elections of a few hundred units)
    out += [dict(seed=seed, i=900000 + k, big=True, cross=False) for k in range({"quick": 2, "thorough": 12}[tier])]
    return out


def build(spec):
    i = spec["i"]
    o = dict(estimator=["nonparametric", "gaussian", "bootstrap"][i % 3], el_n_units=None, feed_frac_reporting=0.7)
    o.pop("el_n_units")
    if spec.get("big"):
        o.update(estimator="nonparametric", el_n_units=int(6500 + 1500 * (i % 3)), el_n_states=4,
                 el_counties_per_state=8, feed_frac_reporting=0.93, feed_n_missing=0, n_estimands=1, features=[],
                 fixed_effects={}, policy="drop", threshold=100, allow_pointer_config=False, el_tiny_county=False,
                 aggregates=["postal_code", "unit"], rare_options=False,
                 mp=dict(fit_turnout_outlier_model=True, fit_margin_outlier_model=True))
    corr = o.get("estimator") == "bootstrap" and (i // 3) % 3 == 0
    if corr:
        o.update(district=False, el_n_states=int(3 + (i // 9) % 2), rare_options=False)
    el, feed, status, call = cases_mod.build(spec["seed"], PROPERTY, i, o)
    if corr:
        # rarely used option: correlations imposed between the swings of named contests; overlapping pairs give a
        # matrix that is not positive semi-definite and is projected before the swings are drawn
        st = sorted(set(el.pre.postal_code.astype(str)))
        call["model_parameters"]["contest_correlations"] = (
            [((st[0], st[1]), 0.9), ((st[1], st[2]), 0.9)] if (i // 9) % 2 == 0 else [((st[0], st[1], st[2]), 0.5)])
        el.meta["contest_correlations"] = "overlapping-pairs" if (i // 9) % 2 == 0 else "one-group"
    if "unit" not in call["aggregates"]:
        call["aggregates"].append("unit")
    if call["pi_method"] == "bootstrap":
        call["model_parameters"]["agg_model_hard_threshold"] = bool(i % 2)
        call["model_parameters"]["T"] = [10, 5000, 200][i % 3]
        call["model_parameters"]["national_summary_correlation"] = bool((i // 2) % 2)
    if call["pi_method"] == "bootstrap" and spec.get("cross") and "strata" not in call["model_parameters"]:
        # rarely used option: stratify the residual bootstrap by two columns (a derived one the baseline file carries)
        med = float(el.pre.baseline_turnout.median())
        el.pre["size_class"] = ["big" if v > med else "small" for v in el.pre.baseline_turnout]
        call["model_parameters"]["strata"] = [["county_classification", "size_class"],
                                              ["size_class", "county_classification"]][(i // 6) % 2]
    if call["pi_method"] == "bootstrap" and "postal_code" not in call["aggregates"]:
        call["aggregates"].insert(0, "postal_code")
    if call["pi_method"] == "bootstrap" and el.district and "district" not in call["aggregates"]:
        call["aggregates"].append("district")
    return el, feed, status, call


def other_call(call, el, rng):
    b = copy.deepcopy(call)
    mode = int(rng.integers(0, 4))
    if mode == 0:  # another estimator
        if call["pi_method"] == "bootstrap":
            b["pi_method"] = "nonparametric"
            b["estimands"] = ["turnout"]
            b["features"] = []
            b["model_parameters"] = {k: v for k, v in b["model_parameters"].items() if k not in ("B", "lambda_")}
        else:
            b["pi_method"] = "gaussian" if call["pi_method"] == "nonparametric" else "nonparametric"
    elif mode == 1:
        b["aggregates"] = list(reversed(b["aggregates"]))[: max(1, len(b["aggregates"]) - 1)]
        if b["pi_method"] == "bootstrap" and "postal_code" not in b["aggregates"]:
            b["aggregates"].append("postal_code")
    elif mode == 2:
        b["model_parameters"]["seed"] = int(rng.integers(1000, 2000))
    else:
        b["prediction_intervals"] = [0.6]
    return b, ["estimator", "aggregates", "seed", "levels"][mode]


def run_digest(el, feed, call, client=None, want_summary=False):
    with harness.patched() as p:
        if call["pi_method"] == "gaussian":
            harness.fast_boot_sigma(p)
        res, exc, cl = harness.run_estimates(el, feed, call, client=client, want_client=True)
        if exc is not None:
            return None, exc, cl
        d = harness.results_digest(res)
        if want_summary and call["pi_method"] == "bootstrap":
            try:
                ns = cl.get_national_summary_votes_estimates(None, 3, call["prediction_intervals"])
                d["nat_sum_data"] = harness.frame_digest(ns)
                d["_nat_sum_values"] = json.dumps(gen.jsonable(ns.iloc[0].to_dict()), sort_keys=True)
                # the same request once more on the same client: equal arguments, equal table
                ns2 = cl.get_national_summary_votes_estimates(None, 3, call["prediction_intervals"])
                d["nat_sum_data_repeated"] = harness.frame_digest(ns2)
                d["_nat_sum_repeat_equal"] = "equal" if d["nat_sum_data_repeated"] == d["nat_sum_data"] else (
                    "DIFFERENT: " + json.dumps(gen.jsonable(ns2.iloc[0].to_dict()), sort_keys=True))
            except Exception as e:  # noqa: BLE001
                d["nat_sum_data"] = f"raised:{type(e).__name__}"
        return d, None, cl


def diff_tables(a, b):
    return sorted(k for k in set(a) | set(b) if a.get(k) != b.get(k))


def run_case(spec, inputs=None):
    if inputs is not None:
        el, feed, call = gen.dematerialise(inputs)
        status = {}
    else:
        el, feed, status, call = build(spec)
    est = call["pi_method"]
    out = dict(violations=[], counters={}, sets={}, nontrivial=False,
               sig=[est, bool(el.district), len(call["estimands"]), bool(call["fixed_effects"]), bool(spec.get("cross"))])
    cm = harness.client_mod()
    rng = gen.rng_for(spec["seed"], PROPERTY, spec["i"], salt=3)

    def V(history, tables, extra=None):
        out["violations"].append(dict(key=f"C12/{est}/{history}", msg=f"{est}: digests differ in {tables} between "
                                      f"two runs with equal arguments ({history})",
                                      witness=dict(tables=tables, extra=extra)))

    d1, exc, _ = run_digest(el, feed, call, want_summary=True)
    if exc is not None:
        if isinstance(exc, cm.ModelNotEnoughSubunitsException):
            out["counters"]["not_enough_units"] = 1
        else:
            out["counters"]["run_raised"] = 1
            out["sets"]["raised"] = [f"{est}:{harness.exc_info(exc)['type']}:{harness.exc_info(exc)['where'][-70:]}"]
        return out
    out["counters"]["cases_completed"] = 1
    out["counters"][f"cases_{est}"] = 1
    if d1.get("_nat_sum_repeat_equal", "equal") != "equal":
        V("national-summary-repeated-request", ["nat_sum_data"], extra=dict(first=d1.get("_nat_sum_values"),
                                                                             second=d1.get("_nat_sum_repeat_equal")))
    hist = ["fresh-client"]
    d2, exc, _ = run_digest(el, feed, call, want_summary=True)
    if exc is not None or diff_tables(d1, d2):
        V("fresh-client-twice", diff_tables(d1, d2 or {}))
    # same client twice
    client = cm.ModelClient()
    d3, exc, _ = run_digest(el, feed, call, client=client, want_summary=True)
    d4, exc4, _ = run_digest(el, feed, call, client=client, want_summary=True)
    if exc is not None or exc4 is not None or diff_tables(d1, d3) or diff_tables(d1, d4):
        V("same-client-twice", sorted(set(diff_tables(d1, d3 or {})) | set(diff_tables(d1, d4 or {}))))
    hist.append("same-client")
    # A, B, A
    bcall, bmode = other_call(call, el, rng)
    _, excb, _ = run_digest(el, feed, bcall, client=client, want_summary=True)
    d5, exc5, _ = run_digest(el, feed, call, client=client, want_summary=True)
    if exc5 is not None or diff_tables(d1, d5):
        V(f"after-other-run/{bmode}", diff_tables(d1, d5 or {}), extra=dict(b_raised=repr(excb)))
    hist.append("A-B-A:" + bmode)
    out["counters"]["runs"] = 6
    # the caller reuses its own argument objects (one settings dict, one config, one feed frame) for two calls, on
    # two fresh clients: nothing a run leaves behind in those objects may change the next run
    objs = harness.shared_objects(el, feed, call)
    snap = (gen.dumps(objs["model_parameters"]), gen.dumps(objs["estimands"]), gen.dumps(objs["aggregates"]),
            gen.dumps(objs["prediction_intervals"]), gen.dumps(objs["features"]), gen.dumps(objs["fixed_effects"]),
            objs["feed"].to_csv(), objs["pre"].to_csv())
    ds = []
    with harness.patched() as p:
        if est == "gaussian":
            harness.fast_boot_sigma(p)
        for rep_ in range(2):
            rs, es = harness.run_estimates_shared(el, feed, call, cm.ModelClient(), objs)
            ds.append(None if es is not None else {k: v for k, v in harness.results_digest(rs).items()})
    d1_tables = {k: v for k, v in d1.items() if not (k.startswith("nat_sum") or k.startswith("_"))}
    if ds[0] is None or ds[1] is None or diff_tables(d1_tables, ds[0]) or diff_tables(d1_tables, ds[1]):
        now = (gen.dumps(objs["model_parameters"]), gen.dumps(objs["estimands"]), gen.dumps(objs["aggregates"]),
               gen.dumps(objs["prediction_intervals"]), gen.dumps(objs["features"]), gen.dumps(objs["fixed_effects"]),
               objs["feed"].to_csv(), objs["pre"].to_csv())
        mutated = [n for n, a, b in zip(("model_parameters", "estimands", "aggregates", "prediction_intervals",
                                         "features", "fixed_effects", "feed", "preprocessed"), snap, now) if a != b]
        which = "first" if (ds[0] is None or diff_tables(d1_tables, ds[0])) else "second"
        V(f"shared-argument-objects/{which}-call", sorted(set(diff_tables(d1_tables, ds[0] or {})) |
                                                           set(diff_tables(d1_tables, ds[1] or {}))),
          extra=dict(arguments_changed_by_the_run=mutated))
    hist.append("shared-argument-objects")
    # the caller corrects its baseline frame IN PLACE (same object, same address) and runs again: the answer must be the
    # one a fresh process gives for the corrected frame, i.e. nothing may have been remembered about that object
    if spec["i"] % 2 == 0:
        objs2 = harness.shared_objects(el, feed, call)
        with harness.patched() as p:
            if est == "gaussian":
                harness.fast_boot_sigma(p)
            harness.run_estimates_shared(el, feed, call, cm.ModelClient(), objs2)
            pre_obj = objs2["pre"]
            jrows = pre_obj.index[: max(1, len(pre_obj) // 3)]
            for c_ in ("baseline_turnout", "baseline_dem", "baseline_gop"):
                pre_obj.loc[jrows, c_] = (pre_obj.loc[jrows, c_] * 1.5).round().astype(pre_obj[c_].dtype)
            for c_ in [c for c in pre_obj.columns if c.startswith("last_election_results_") or c in (
                    "baseline_weights", "baseline_margin", "baseline_normalized_margin")]:
                del pre_obj[c_]
            r_same, e_same = harness.run_estimates_shared(el, feed, call, cm.ModelClient(), objs2)
            objs3 = harness.shared_objects(el, feed, call)
            objs3["pre"] = pre_obj.copy(deep=True)
            r_new, e_new = harness.run_estimates_shared(el, feed, call, cm.ModelClient(), objs3)
        if (e_same is None) != (e_new is None) or (e_same is None and diff_tables(
                harness.results_digest(r_same), harness.results_digest(r_new))):
            V("baseline-frame-edited-in-place", [] if e_same is not None or e_new is not None else diff_tables(
                harness.results_digest(r_same), harness.results_digest(r_new)),
              extra=dict(same_object=repr(e_same), equal_copy=repr(e_new)))
        hist.append("baseline-edited-in-place")
    # one live feed frame serves two different requests: first a bootstrap margin run, then this case's own request,
    # both on the caller's SAME frame object; the second answer must be the one a fresh frame gives
    if est != "bootstrap" and spec["i"] % 2 == 1 and "margin" not in call["estimands"] and not call.get("feed_as_lists") \
            and el.election_id.endswith("G") and "baseline_pointer" not in el.config[el.election_id][0]:
        objs4 = harness.shared_objects(el, feed, call)
        mcall = copy.deepcopy(call)
        mcall.update(pi_method="bootstrap", estimands=["margin"], features=["baseline_normalized_margin"],
                     fixed_effects={}, aggregates=["postal_code", "unit"])
        mcall["model_parameters"] = dict(B=5, lambda_=1.0, seed=1, fit_turnout_outlier_model=False,
                                         fit_margin_outlier_model=False)
        objs_m = harness.shared_objects(el, feed, mcall)
        objs_m["feed"] = objs4["feed"]  # the same live frame object
        with harness.patched() as p:
            if est == "gaussian":
                harness.fast_boot_sigma(p)
            harness.run_estimates_shared(el, feed, mcall, cm.ModelClient(), objs_m)
            r_after, e_after = harness.run_estimates_shared(el, feed, call, cm.ModelClient(), objs4)
        if e_after is not None or diff_tables(d1_tables, harness.results_digest(r_after)):
            V("after-other-request-on-the-same-feed-frame",
              [] if e_after is not None else diff_tables(d1_tables, harness.results_digest(r_after)),
              extra=dict(raised=repr(e_after), feed_columns_now=list(objs4["feed"].columns)))
        hist.append("same-feed-frame-after-margin-run")
    out["counters"]["runs"] = 8
    # (vi) the seed is wired: another seed can change the output
    scall = copy.deepcopy(call)
    scall["model_parameters"]["seed"] = int(call["model_parameters"].get("seed", 0)) + 17
    d6, exc6, _ = run_digest(el, feed, scall, want_summary=True)
    if exc6 is None and diff_tables(d1, d6):
        out["counters"]["other_seed_changed_output"] = 1
        out["counters"][f"other_seed_changed_output_{est}"] = 1
    # cross process, other hash seeds
    if spec.get("cross"):
        m = gen.materialise(el, feed, call)
        for hs in ("1", "2", "12345"):
            e = dict(os.environ)
            e.update(PYTHONHASHSEED=hs, PYTHONPATH=core.VERIF_DIR)
            p = subprocess.run([sys.executable, "-m", "vlib.checks.c12", "child"], input=json.dumps(m).encode(),
                               env=e, cwd=core.VERIF_DIR, stdout=subprocess.PIPE, stderr=subprocess.PIPE, timeout=600)
            if p.returncode != 0:
                out["inconclusive"] = "cross-process child failed: " + p.stderr.decode(errors="replace")[-600:]
                break
            dx = json.loads(p.stdout.decode().strip().splitlines()[-1])
            out["counters"]["cross_process_runs"] = out["counters"].get("cross_process_runs", 0) + 1
            if diff_tables(d1, dx):
                V(f"fresh-process-hashseed-{hs}", diff_tables(d1, dx))
        hist.append("cross-process")
    vals = list(status.values())
    out["nontrivial"] = ("partial" in vals or "zero" in vals)
    out["sig"] = out["sig"] + [hist]
    out["sets"]["histories"] = [[est, h] for h in hist]
    if out["violations"]:
        out["inputs"] = gen.materialise(el, feed, call)
    if spec["i"] % 11 == 0:
        out["sample"] = gen.jsonable(dict(election=el.meta, call=call, histories=hist, digest=d1))
    return out


def finalize(agg):
    c = agg["counters"]
    for est in ("nonparametric", "gaussian", "bootstrap"):
        if not c.get(f"cases_{est}"):
            return f"no completed case for {est}", {}
        if not c.get(f"other_seed_changed_output_{est}"):
            return f"changing the seed setting never changed the {est} output (seed not observed to be wired)", {}
    if not c.get("cross_process_runs"):
        return "no cross-process run", {}
    return None, {}


def child():
    from vlib import env as venv  # noqa: F401

    m = json.loads(sys.stdin.read())
    el, feed, call = gen.dematerialise(m)
    d, exc, _ = run_digest(el, feed, call, want_summary=True)
    if exc is not None:
        d = {"raised": repr(exc)}
    sys.stdout.write("\n" + json.dumps(d) + "\n")
    sys.stdout.flush()
    os._exit(0)


if __name__ == "__main__":
    if len(sys.argv) >= 2 and sys.argv[1] == "child":
        child()
