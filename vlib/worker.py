"""Worker process: runs a batch of cases of one check module; one JSON line per judged case."""
import faulthandler
import importlib
import json
import os
import sys
import time
import traceback

from . import env  # noqa: F401  (must precede any elexmodel import)


def main():
    modname, inp, out = sys.argv[1:4]
    faulthandler.enable()
    mod = importlib.import_module(modname)
    with open(inp) as f:
        specs = json.load(f)
    case_timeout = getattr(mod, "CASE_TIMEOUT", 300)
    with open(out, "w") as fo:
        for spec in specs:
            faulthandler.dump_traceback_later(case_timeout, exit=True)
            t = time.time()
            try:
                r = mod.run_case(spec)
            except Exception:  # noqa: BLE001  harness error (not the code under test): unjudged, reported
                r = dict(violations=[], inconclusive="harness error: " + traceback.format_exc()[-1500:])
            faulthandler.cancel_dump_traceback_later()
            r["spec"] = spec
            r["dt"] = round(time.time() - t, 3)
            if not r.get("violations"):
                r.pop("inputs", None)
            fo.write(json.dumps(r, default=str) + "\n")
            fo.flush()
    os._exit(0)


if __name__ == "__main__":
    main()
