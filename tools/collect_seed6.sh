#!/bin/sh
# usage: tools/collect_seed6.sh C01  -- round 6: /tmp/seed6_<ID> -> seeded/<ID>f
ID=$1; W=/tmp/seed6_$ID; D=/verif/seeded/${ID}f
mkdir -p $D
git -C $W diff -- src > $D/patch.diff
cp $W/demo_$ID.py $D/ 2>/dev/null || cp $W/demo*.py $D/
cp $W/meta.json $D/meta.json
echo "$ID: $(wc -l < $D/patch.diff) lines"
