#!/bin/sh
# usage: tools/run_all.sh [quick|thorough] [seed]   -- runs every registered check sequentially, prints one line each
TIER=${1:-quick}; SEED=${2:-0}
cd "$(dirname "$0")/.."
for p in C01 C02 C03 C04 C05 C06 C07 C08 C09 C10 C11 C12 C13 C14 C15 C16 C17 C18 C19 C20; do
  t0=$(date +%s)
  VERIF_SEED=$SEED /venv/bin/python -m vlib.check $p --tier $TIER > /tmp/verif_run_$p.log 2>&1
  rc=$?
  t1=$(date +%s)
  echo "$p rc=$rc $((t1-t0))s $(grep -E "^$p $TIER" /tmp/verif_run_$p.log | cut -c1-150) $(grep -c '^VIOLATION' /tmp/verif_run_$p.log) VIOLATION-lines $(grep -c '^KNOWN-FINDING' /tmp/verif_run_$p.log) KNOWN $(grep -E '^INCONCLUSIVE' /tmp/verif_run_$p.log | cut -c1-120)"
done
