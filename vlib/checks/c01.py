"""C01 - counted votes are conserved and every unit is reported exactly once."""
from .. import tablecheck
from . import common

PROPERTY = "C01"
LEVEL = "exploration"
RULE = ("seeded synthetic elections (1-4 states, statewide and district offices, mixed-width district labels, "
        "zero-baseline / blocklisted / missing / unexpected units, thresholds 100/90/50/0.5, both unreporting "
        "policies, random aggregate subsets and orders, 1-3 estimands, three estimators) run through the real "
        "ModelClient.get_estimates; a loop-and-dict reference re-derives every unit row and every group row from "
        "the feed. A case is non-trivial when the run completed and it has >=1 reporting, >=1 nonreporting and "
        ">=1 unit outside the model; distinct = distinct signature (estimator, office kind, policy, unexpected?, "
        "missing?, zero-baseline?, blocklist?, #aggregate levels, #estimands, threshold, multi-state?, "
        "classification level?)")
ASSUMPTIONS = ["feed unit ids are unique (the property's quantifier); duplicate ids are C14's error path",
               "a run that raises is not judged here (C11/C14 judge failures); such runs are counted"]
BATCH = {"quick": 8, "thorough": 25}
BUDGET = {"quick": 120, "thorough": 1500}
MIN_NONTRIVIAL = {"quick": 20, "thorough": 50}
N = {"quick": 360, "thorough": 12000}


def cases(tier, seed):
    return [dict(seed=seed, i=i, o=(dict(null_cells=True, allow_pointer_config=False) if i % 6 == 5 else (
        dict(cat_key=True, fixed_effects={}, district=bool(i % 24 == 10)) if i % 12 == 10 else None)),
                 polls=(3 if i % 6 == 2 else 0), shared_feed=bool(i % 12 == 2)) for i in range(N[tier])]


def _post(out, ctx):
    vals = list(ctx["status"].values())
    urows, _, _ = tablecheck.unit_rows(ctx["res"], ctx["client"], ctx["call"]["estimands"])
    cats = {}
    for u in urows:
        c = u.get("unit_category")
        if c is None:
            c = u.get("unit_category_x")
        key = "reporting" if (c == "expected" and u.get("reporting") == 1) else (
            "nonreporting" if c == "expected" else str(c))
        cats[key] = cats.get(key, 0) + 1
    out["sets"]["categories"] = sorted(cats)
    outside = sum(v for k, v in cats.items() if k not in ("reporting", "nonreporting"))
    out["nontrivial"] = bool(cats.get("reporting") and cats.get("nonreporting") and outside)
    out["sets"]["tables"] = sorted(k for k in ctx["res"])
    if ctx["spec_i"] % 97 == 0:
        out["sample"] = common.sample_of(ctx, dict(unit_categories=cats))


def run_case(spec, inputs=None):
    def post(out, ctx):
        ctx["spec_i"] = spec["i"]
        _post(out, ctx)

    out, _ = common.run_table_case(spec, PROPERTY, tablecheck.check_conservation, inputs=inputs, post=post)
    return out


def finalize(agg):
    c = agg["counters"]
    for est in ("nonparametric", "gaussian", "bootstrap"):
        if c.get(f"runs_{est}", 0) == 0:
            return f"no completed run for estimator {est}", {}
    raised = c.get("run_raised", 0)
    if raised > 0.25 * max(1, agg["n_results"]):
        return f"{raised} of {agg['n_results']} runs raised and could not be judged", {}
    return None, {}
