"""C05 - with no covariates the model is uniform swing by the weighted median."""
import numpy as np

from .. import cases as cases_mod
from .. import gen, harness
from .. import reference as ref
from . import common

PROPERTY = "C05"
LEVEL = "exploration"
RULE = ("real get_estimates runs (nonparametric and gaussian) with features=[] and fixed_effects={} on generated "
        "elections (1-4 states, 7-400 units, heavy-tailed / tied residuals, one dominant unit, partial counts above "
        "and below the prediction). Oracle: the baseline-weighted median interval [m_lo, m_hi] of (counted-w)/w over "
        "the modelled reporting units (w = baseline+1) is computed by sorting in plain python with exact integer "
        "weight sums; where it is a single point every nonreporting unit must carry round(max(m*w + w, partial)). "
        "Non-trivial: unique median and >=3 nonreporting units of which one is floored and one is not; distinct = "
        "(estimator, #states, estimand, n bucket, tie structure)")
ASSUMPTIONS = ["the set of modelled reporting units is read from the returned reporting / unit_category columns "
               "(C09 checks that set)",
               "a value within 1e-6 of x.5 before rounding may differ by one vote (counted as rounding_ties)"]
BATCH = {"quick": 10, "thorough": 25}
BUDGET = {"quick": 120, "thorough": 1500}
MIN_NONTRIVIAL = {"quick": 15, "thorough": 40}
N = {"quick": 400, "thorough": 10000}


def cases(tier, seed):
    return [dict(seed=seed, i=i) for i in range(N[tier])]


def build(spec):
    i = spec["i"]
    rng = gen.rng_for(spec["seed"], PROPERTY, i, salt=9)
    o = dict(estimator=["nonparametric", "gaussian"][i % 2], features=[], fixed_effects={},
             el_n_units=int(gen.choice(rng, [12, 20, 40, 80, 150, 400])), feed_partial_above=float(gen.choice(rng, [0, 0.3])),
             feed_p_partial=0.7, n_estimands=int(gen.choice(rng, [1, 2])), el_float_baseline=bool(rng.random() < 0.3))
    if i % 5 == 0:
        o["el_equal_baseline"] = True  # many exact ties in the weights -> non-unique medians do occur
    el, feed, status, call = cases_mod.build(spec["seed"], PROPERTY, i, o)
    call["model_parameters"].pop("lambda_", None)
    if i % 7 == 0:
        # one dominant unit
        j = int(rng.integers(0, len(el.pre)))
        el.pre.loc[j, ["baseline_turnout", "baseline_dem", "baseline_gop"]] = [5_000_000, 2_500_000, 2_400_000]
    if "unit" not in call["aggregates"]:
        call["aggregates"].append("unit")
    return el, feed, status, call


def weighted_median_interval(r, w):
    """r: list of floats, w: list of exact integer-valued weights.  Returns (m_lo, m_hi)."""
    order = sorted(range(len(r)), key=lambda k: r[k])
    total = sum(int(x) for x in w)
    # group equal r values
    vals, wts = [], []
    for k in order:
        if vals and r[k] == vals[-1]:
            wts[-1] += int(w[k])
        else:
            vals.append(r[k])
            wts.append(int(w[k]))
    cum = 0
    for idx, (v, ww) in enumerate(zip(vals, wts)):
        below = cum
        above = total - cum - ww
        if 2 * below <= total and 2 * above <= total:
            lo = v
            hi = v
            if 2 * (cum + ww) == total and idx + 1 < len(vals):
                hi = vals[idx + 1]
            return lo, hi
        cum += ww
    return None, None


def checker(el, feed, call, res, client):
    out, cnt = [], {}
    base = {r["geographic_unit_fips"]: r for r in ref.rows(el.pre)}
    urows = ref.rows(res["unit_data"])
    for e in call["estimands"]:
        rep = [u for u in urows if u["unit_category"] == "expected" and u["reporting"] == 1]
        non = [u for u in urows if u["unit_category"] == "expected" and u["reporting"] == 0]
        ws, rs = [], []
        integral = True
        for u in rep:
            b = float(base[u["geographic_unit_fips"]][f"baseline_{e}"])
            w = b + 1.0
            if w != int(w):
                integral = False
            ws.append(w)
            rs.append(float((np.float64(u[f"results_{e}"]) - np.float64(w)) / np.float64(w)))
        if not rep or not integral:
            cnt["skipped_no_reporting_or_nonintegral"] = cnt.get("skipped_no_reporting_or_nonintegral", 0) + 1
            continue
        lo, hi = weighted_median_interval(rs, ws)
        if lo is None:
            cnt["skipped_no_median"] = cnt.get("skipped_no_median", 0) + 1
            continue
        if lo != hi:
            cnt["skipped_nonunique"] = cnt.get("skipped_nonunique", 0) + 1
            continue
        cnt["unique_median_estimands"] = cnt.get("unique_median_estimands", 0) + 1
        m = np.float64(lo)
        floored = unfloored = 0
        for u in non:
            w = np.float64(float(base[u["geographic_unit_fips"]][f"baseline_{e}"]) + 1.0)
            partial = np.float64(u[f"results_{e}"])
            raw = m * w + w
            want = float(np.round(np.maximum(raw, partial)))
            got = float(u[f"pred_{e}"])
            cnt["nonreporting_units_checked"] = cnt.get("nonreporting_units_checked", 0) + 1
            if partial >= raw:
                floored += 1
            else:
                unfloored += 1
            if got != want:
                frac = abs((float(raw) % 1.0) - 0.5)
                if abs(got - want) <= 1 and frac < 1e-6 and partial < raw:
                    cnt["rounding_ties"] = cnt.get("rounding_ties", 0) + 1
                    continue
                out.append(dict(key=f"C05/{call['pi_method']}/prediction-not-uniform-swing",
                                msg=f"unit {u['geographic_unit_fips']} pred_{e}={got} but weighted median m={float(m)} "
                                    f"gives round(max({float(raw)}, {float(partial)}))={want} (n_reporting={len(rep)})",
                                witness=dict(unit=u["geographic_unit_fips"], estimand=e, m=float(m), w=float(w),
                                             partial=float(partial), got=got, want=want, n_reporting=len(rep))))
        if floored and unfloored and len(non) >= 3:
            cnt["estimands_with_floored_and_unfloored"] = cnt.get("estimands_with_floored_and_unfloored", 0) + 1
    return out, cnt


def run_case(spec, inputs=None):
    if inputs is not None:
        el, feed, call = gen.dematerialise(inputs)
        status = inputs.get("status", {})
    else:
        el, feed, status, call = build(spec)
    out = dict(violations=[], counters={}, sets={}, nontrivial=False)
    with harness.patched() as p:
        if call["pi_method"] == "gaussian":
            harness.fast_boot_sigma(p, 50)
        res, exc, client = harness.run_estimates(el, feed, call, want_client=True)
    cm = harness.client_mod()
    if exc is not None:
        if isinstance(exc, cm.ModelNotEnoughSubunitsException):
            out["counters"]["not_enough_units"] = 1
        else:
            out["counters"]["run_raised"] = 1
            out["sets"]["raised"] = [harness.exc_info(exc)["type"] + ":" + harness.exc_info(exc)["where"][-70:]]
        return out
    vs, cnt = checker(el, feed, call, res, client)
    out["violations"] = vs
    out["counters"].update(cnt)
    out["counters"]["runs_completed"] = 1
    out["counters"][f"runs_{call['pi_method']}"] = 1
    out["nontrivial"] = bool(cnt.get("estimands_with_floored_and_unfloored"))
    n = len(feed)
    out["sig"] = [call["pi_method"], el.meta["n_states"], call["estimands"], min(n // 50, 5), bool(el.meta["equal_baseline"]),
                  call["percent_reporting_threshold"], call["handle_unreporting"]]
    if vs:
        m = gen.materialise(el, feed, call)
        m["status"] = status
        out["inputs"] = m
    if spec["i"] % 101 == 0:
        out["sample"] = common.sample_of(dict(el=el, feed=feed, status=status, call=call, res=res), dict(counters=cnt))
    return out


def finalize(agg):
    c = agg["counters"]
    if not c.get("unique_median_estimands"):
        return "no case with a unique weighted median", {}
    if not c.get("runs_nonparametric") or not c.get("runs_gaussian"):
        return "an estimator was never run", {}
    return None, {}
